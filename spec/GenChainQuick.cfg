CONSTANTS
  NV = 3
  NI = 2
INIT Init
NEXT Next
INVARIANT Emit
CHECK_DEADLOCK FALSE
