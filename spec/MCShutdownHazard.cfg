CONSTANTS
  Backends = {1, 2}
  MaxTicks = 2
  Stops = {1, 2}
SPECIFICATION Fair
INVARIANTS NoWaitGroupHazard

CHECK_DEADLOCK FALSE
