------------------------------ MODULE Breaker ------------------------------
(* M -- mechanism model of internal/circuitbreaker/circuitbreaker.go.      *)
(* One action per critical section of Execute/beforeRequest/afterRequest,  *)
(* each preceded in the code by a `vgate("cb:...")` scheduling point, so   *)
(* releasing a parked goroutine in the harness executes exactly one action *)
(* of this module:                                                         *)
(*   Read(c)    RLock section of beforeRequest   (gate cb:read)            *)
(*   Reset(c)   closed: upgrade + double check   (gate cb:reset)           *)
(*   ToHalf(c)  open:   upgrade + double check   (gate cb:tohalf)          *)
(*   Count(c)   Execute's requestCount++ section (gate cb:count)           *)
(*   Run(c)     fn() outside any lock            (harness gate "fn")       *)
(*   After(c)   afterRequest                     (gate cb:after)           *)
(* Timers are ages capped at bound+1, so the model is finite without a     *)
(* state constraint and liveness checking (C08) is sound.                  *)
(* CbReenters = TRUE models a state-change callback that calls back into   *)
(* the breaker (Counts()) while setState still holds the write lock: the   *)
(* caller blocks forever and so does everybody else.                       *)
EXTENDS Integers, Sequences, FiniteSets, TLC

CONSTANTS Callers, CfgSet, CbReenters, Outcomes, TickWhileBusy

VARIABLES cf,      \* configuration record [ft, st, mr, iv, to], chosen once (one TLC run covers CfgSet)
          state, failures, successes, trials, hasFail, failAge, openAge,
          pc, plan, res, stuck

FT == cf.ft
ST == cf.st
MR == cf.mr
IV == cf.iv
TO == cf.to

vars == <<cf, state, failures, successes, trials, hasFail, failAge, openAge, pc, plan, res, stuck>>
bvars == <<state, failures, successes, trials, hasFail, failAge, openAge>>

Cap(n, c) == IF n > c THEN c ELSE n
FCap == FT + 1            \* failureCount only matters up to FT (it is compared with >= FT or reset)

Init == /\ cf \in CfgSet
        /\ state = "closed" /\ failures = 0 /\ successes = 0 /\ trials = 0
        /\ hasFail = FALSE /\ failAge = 0 /\ openAge = 0
        /\ pc = [c \in Callers |-> "idle"]
        /\ plan = [c \in Callers |-> "ok"]
        /\ res = [c \in Callers |-> "none"]
        /\ stuck = FALSE

Busy == \E c \in Callers : pc[c] \notin {"idle", "stuck"}

\* a new call by caller c whose function will end with outcome o
Call(c, o) == /\ pc[c] = "idle" /\ ~stuck
              /\ pc' = [pc EXCEPT ![c] = "read"]
              /\ plan' = [plan EXCEPT ![c] = o]
              /\ res' = [res EXCEPT ![c] = "none"]
              /\ UNCHANGED <<bvars, stuck>>

Read(c) ==
  /\ pc[c] = "read" /\ ~stuck
  /\ UNCHANGED <<bvars, plan, stuck>>
  /\ CASE state = "closed" ->
            /\ pc' = [pc EXCEPT ![c] = IF hasFail /\ failAge > IV THEN "reset" ELSE "count"]
            /\ UNCHANGED res
       [] state = "open" ->
            IF openAge > TO
            THEN pc' = [pc EXCEPT ![c] = "tohalf"] /\ UNCHANGED res
            ELSE pc' = [pc EXCEPT ![c] = "idle"] /\ res' = [res EXCEPT ![c] = "open"]
       [] state = "half" ->
            IF trials >= MR
            THEN pc' = [pc EXCEPT ![c] = "idle"] /\ res' = [res EXCEPT ![c] = "many"]
            ELSE pc' = [pc EXCEPT ![c] = "count"] /\ UNCHANGED res

Reset(c) ==
  /\ pc[c] = "reset" /\ ~stuck
  /\ failures' = IF failAge > IV THEN 0 ELSE failures
  /\ pc' = [pc EXCEPT ![c] = "count"]
  /\ UNCHANGED <<state, successes, trials, hasFail, failAge, openAge, plan, res, stuck>>

\* setState(to) followed by `rest` inside one critical section; with a re-entrant
\* callback the section never ends
ToHalf(c) ==
  /\ pc[c] = "tohalf" /\ ~stuck
  /\ IF state = "open" /\ openAge > TO
     THEN /\ state' = "half"
          /\ IF CbReenters
             THEN /\ stuck' = TRUE /\ pc' = [pc EXCEPT ![c] = "stuck"]
                  /\ UNCHANGED <<trials, successes>>
             ELSE /\ trials' = 0 /\ successes' = 0
                  /\ pc' = [pc EXCEPT ![c] = "count"] /\ UNCHANGED stuck
     ELSE /\ pc' = [pc EXCEPT ![c] = "count"]
          /\ UNCHANGED <<state, trials, successes, stuck>>
  /\ UNCHANGED <<failures, hasFail, failAge, openAge, plan, res>>

\* Execute's admission section: in half-open the budget is checked and the trial counted in ONE critical section
\* (a caller that passed Read while the budget was free, or lost the open -> half-open race, is turned away here)
Count(c) ==
  /\ pc[c] = "count" /\ ~stuck
  /\ IF state = "half" /\ trials >= MR
     THEN /\ pc' = [pc EXCEPT ![c] = "idle"] /\ res' = [res EXCEPT ![c] = "many"] /\ UNCHANGED trials
     ELSE IF state = "open" /\ openAge <= TO      \* tripped (again) since this caller looked: turned away like any other
     THEN /\ pc' = [pc EXCEPT ![c] = "idle"] /\ res' = [res EXCEPT ![c] = "open"] /\ UNCHANGED trials
     ELSE /\ trials' = IF state = "half" THEN trials + 1 ELSE trials
          /\ pc' = [pc EXCEPT ![c] = "run"] /\ UNCHANGED res
  /\ UNCHANGED <<state, failures, successes, hasFail, failAge, openAge, plan, stuck>>

Run(c) ==
  /\ pc[c] = "run"
  /\ pc' = [pc EXCEPT ![c] = "after"]
  /\ UNCHANGED <<bvars, plan, res, stuck>>

After(c) ==
  LET ok      == plan[c] = "ok"
      closing == ok /\ state = "half" /\ successes + 1 >= ST
      opening == ~ok /\ ((state = "closed" /\ failures + 1 >= FT) \/ state = "half")
      change  == closing \/ opening
      wedge   == change /\ CbReenters      \* callback re-enters under the write lock
  IN
  /\ pc[c] = "after" /\ ~stuck
  /\ UNCHANGED <<plan, trials>>
  /\ successes' = IF ok /\ state = "half" THEN successes + 1 ELSE successes
  /\ hasFail' = IF ok THEN hasFail ELSE TRUE
  /\ failAge' = IF ok THEN failAge ELSE 0
  /\ state' = IF closing THEN "closed" ELSE IF opening THEN "open" ELSE state
  \* statements after setState() in the same critical section never run when wedged
  /\ failures' = IF ok THEN (IF closing /\ ~wedge THEN 0 ELSE failures)
                       ELSE Cap(failures + 1, FCap)
  /\ openAge' = IF opening /\ ~wedge THEN 0 ELSE openAge
  /\ stuck' = wedge
  /\ pc' = [pc EXCEPT ![c] = IF wedge THEN "stuck" ELSE "idle"]
  /\ res' = [res EXCEPT ![c] = IF wedge THEN "none" ELSE plan[c]]

Tick ==
  \* time passes between calls, or (TickWhileBusy) while every in-flight call is inside fn()
  /\ IF TickWhileBusy THEN \A c \in Callers : pc[c] \in {"idle", "run", "stuck"} ELSE ~Busy
  /\ failAge' = Cap(failAge + 1, IV + 1)
  /\ openAge' = Cap(openAge + 1, TO + 1)
  /\ UNCHANGED <<state, failures, successes, trials, hasFail, pc, plan, res, stuck>>

Step(c) == Read(c) \/ Reset(c) \/ ToHalf(c) \/ Count(c) \/ Run(c) \/ After(c)

Next == /\ \/ \E c \in Callers : (\E o \in Outcomes : Call(c, o)) \/ Step(c)
           \/ Tick
        /\ UNCHANGED cf

Spec == Init /\ [][Next]_vars

TypeOK == /\ state \in {"closed", "open", "half"}
          /\ failures \in 0..FCap /\ successes \in 0..(ST + Cardinality(Callers))
          /\ trials \in 0..(MR + Cardinality(Callers))
          /\ failAge \in 0..(IV + 1) /\ openAge \in 0..(TO + 1)
=============================================================================
