------------------------------ MODULE ObsIdTrace ------------------------------
EXTENDS IdHeaders, Json, IOUtils
Tr == ndJsonDeserialize(IOEnv.TRACE_FILE)
VARIABLES l, viol
Init == l = 1 /\ viol = <<>>
Next == /\ l <= Len(Tr) /\ l' = l + 1
        /\ viol' = IF "burst" \in DOMAIN Tr[l] THEN CheckBurst(Tr[l].burst) ELSE Check(Tr[l].c, Tr[l].o)
Report == viol = <<>> \/ PrintT("VIOL " \o ToJson([line |-> l - 1, v |-> viol]))
Consumed == TLCGet("stats").diameter - 1 = Len(Tr)
=============================================================================
