--------------------------- MODULE LimiterProofs ---------------------------
(* Unbounded complement to the TLC runs: for EVERY set of clients and EVERY *)
(* configuration (max >= 1 tokens, one token per r >= 1 ticks, any cleanup  *)
(* age) the token count of every bucket of Limiter.tla stays within 0..max. *)
(* Checked by the TLA+ proof system (tlapm), not by enumeration.            *)
EXTENDS Limiter, TLAPS

ASSUME CfgAssump == /\ CfgSet \subseteq [max : Nat \ {0}, r : Nat \ {0}]
                    /\ CA0 \in Nat

Bucket == [present : BOOLEAN, tokens : Nat, since : Nat]
Inv == /\ cf \in CfgSet
       /\ bucket \in [Clients -> Bucket]
       /\ \A c \in Clients : bucket[c].tokens <= cf.max

LEMMA MinType == \A a, b \in Nat : Min(a, b) \in Nat /\ Min(a, b) <= a /\ Min(a, b) <= b
  BY DEF Min

THEOREM InitInv == Init => Inv
  BY CfgAssump DEF Init, Inv, Bucket, Absent

THEOREM NextInv == Inv /\ [Next]_vars => Inv'
<1> SUFFICES ASSUME Inv, [Next]_vars PROVE Inv'
  OBVIOUS
<1> cf \in [max : Nat \ {0}, r : Nat \ {0}]
  BY CfgAssump DEF Inv
<1>1. ASSUME NEW c \in Clients, Allow(c) PROVE Inv'
  <2> DEFINE b0 == IF bucket[c].present THEN bucket[c] ELSE [present |-> TRUE, tokens |-> MaxT, since |-> 0]
  <2> DEFINE b1 == Refill(b0)
  <2>1. b0 \in Bucket /\ b0.tokens <= cf.max
    BY DEF Inv, Bucket, MaxT
  <2>2. b1 \in Bucket /\ b1.tokens <= cf.max
    BY <2>1, MinType DEF Refill, Bucket, MaxT, R, Min
  <2>3. bucket' = [bucket EXCEPT ![c] = IF b1.tokens > 0 THEN [b1 EXCEPT !.tokens = @ - 1] ELSE b1] /\ cf' = cf
    BY <1>1 DEF Allow
  <2> QED
    BY <2>2, <2>3 DEF Inv, Bucket
<1>2. ASSUME Tick PROVE Inv'
  <2> DEFINE nb(c) == IF bucket[c].present /\ bucket[c].since >= CA THEN Absent
                      ELSE IF bucket[c].present THEN [bucket[c] EXCEPT !.since = Min(@ + 1, SCap)]
                      ELSE bucket[c]
  <2>1. bucket' = [c \in Clients |-> nb(c)] /\ cf' = cf
    BY <1>2 DEF Tick
  <2>2. CA \in Nat /\ SCap \in Nat
    BY CfgAssump DEF CA, SCap, MaxT, R
  <2>3. ASSUME NEW c \in Clients PROVE nb(c) \in Bucket /\ nb(c).tokens <= cf.max
    <3>1. bucket[c] \in Bucket /\ bucket[c].tokens <= cf.max
      BY DEF Inv
    <3>2. Min(bucket[c].since + 1, SCap) \in Nat
      BY <3>1, <2>2, MinType DEF Bucket
    <3>3. Absent \in Bucket /\ Absent.tokens <= cf.max
      BY DEF Absent, Bucket
    <3> QED
      BY <3>1, <3>2, <3>3 DEF Bucket
  <2> QED
    BY <2>1, <2>3 DEF Inv
<1>3. ASSUME UNCHANGED vars PROVE Inv'
  BY <1>3 DEF vars, Inv
<1> QED
  BY <1>1, <1>2, <1>3 DEF Next

TokensInRangeAll == \A c \in Clients : bucket[c].tokens \in 0..MaxT
THEOREM Safety == Spec => []TokensInRangeAll
<1>1. Inv => TokensInRangeAll
  BY CfgAssump DEF Inv, TokensInRangeAll, Bucket, MaxT
<1> QED
  BY InitInv, NextInv, <1>1, PTL DEF Spec
=============================================================================
