CONSTANTS
  Backends = {1, 2}
  MaxTicks = 2
  Stops = {1, 2}
SPECIFICATION Fair
INVARIANTS NoProbeAfterStop PoolClosedAfterStop
PROPERTIES StopReturns
CHECK_DEADLOCK FALSE
