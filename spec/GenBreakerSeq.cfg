CONSTANTS
  Callers = {1}
  CfgSet <- CfgAll
  CbReenters = FALSE
  Outcomes = {"ok", "err", "panic"}
  TickWhileBusy = FALSE
INIT MCInit
NEXT MCNext
VIEW View
INVARIANTS EmitInit
ACTION_CONSTRAINT Emit
