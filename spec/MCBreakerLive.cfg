\* C08 liveness on the mechanism model: no state constraint, capped ages => sound
CONSTANTS
  Callers = {1}
  CfgSet <- CfgValid
  CbReenters = FALSE
  Outcomes = {"ok", "err", "panic"}
  TickWhileBusy = FALSE
SPECIFICATION LiveSpec
PROPERTIES Recovers Returns
