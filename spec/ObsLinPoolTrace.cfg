INIT Init0
NEXT Next0
INVARIANT Report
POSTCONDITION Consumed
CHECK_DEADLOCK FALSE
