----------------------------- MODULE TraceSystem -----------------------------
(* Conformance of the real request path to the composed model M             *)
(* (System.tla), code -> specification.  The trace is what harness/lbsim    *)
(* recorded while replaying System's walks on a LoadBalancer built by       *)
(* NewLoadBalancer with rate limiter, circuit breaker and passive checks    *)
(* on: after every step the harness logs the whole abstract state ("sys":   *)
(* breaker state and counters, passive counts, health flags in list order,  *)
(* published totals per class and per backend, the breaker state as the     *)
(* metrics collector shows it).  Every request must be SysReq(c, o) with    *)
(* the answer class and the backend the model computes, every other step    *)
(* the action of the same name, and after each the model's state must equal *)
(* the logged one.  The token buckets are not logged: TLC infers them from  *)
(* the answers.  A step M cannot explain marks the segment diverged         *)
(* ("MDIV": a statement about the model, never a property verdict).         *)
(* P on the same lines (verdicts): SystemObs / ObsSystemTrace.              *)
EXTENDS System, Json, IOUtils

W321 == [b \in 1..N |-> IF b = 1 THEN 3 ELSE IF b = 2 THEN 2 ELSE 1]
W111 == [b \in 1..N |-> 1]
Hash2 == [c \in Clients |-> c * 5 + 1]

Tr == ndJsonDeserialize(IOEnv.TRACE_FILE)
VARIABLES l, mode, seg, note
E == Tr[l]

Name(b) == "b" \o ToString(b)
IdOf(n) == IF \E b \in B : Name(b) = n THEN CHOOSE b \in B : Name(b) = n ELSE 0
ClientOf(a) == IF \E c \in Clients : ("10.0.0." \o ToString(c)) = a THEN CHOOSE c \in Clients : ("10.0.0." \o ToString(c)) = a ELSE 0
OutcomeOf(p) == CASE p = "ok" -> "ok" [] p = "s500" -> "fail" [] p = "abort" -> "abort" [] OTHER -> "?"
KindOf(k) == CASE k = "no_backend" -> "no_backend" [] k = "rate_limited" -> "limited" [] k = "cb_open" -> "open"
               [] k = "cb_too_many" -> "many" [] OTHER -> "proxied"

\* the "sys" line that closes the step beginning at line i
RECURSIVE SysAt(_)
SysAt(i) == IF i > Len(Tr) THEN 0 ELSE IF Tr[i].ev = "sys" THEN i ELSE IF Tr[i].ev = "cfg" THEN 0 ELSE SysAt(i + 1)
RECURSIVE LineOf(_, _)
LineOf(i, ev) == IF i > Len(Tr) \/ Tr[i].ev \in {"sys", "cfg"} THEN 0 ELSE IF Tr[i].ev = ev THEN i ELSE LineOf(i + 1, ev)

MbOf(s, b) == IF Name(b) \in DOMAIN s.mb THEN s.mb[Name(b)] ELSE [total |-> 0, failed |-> 0]

\* the model's state after the step equals what the harness read from the real objects
Matches(s) ==
  /\ CbOn => /\ s.bk.state = bk'.state /\ Min(s.bk.f, FCap) = bk'.failures
             /\ s.bk.s = bk'.successes /\ s.bk.r = bk'.trials
             /\ s.cbm = cbm'
  /\ Len(s.order) = Len(order')
  /\ \A i \in DOMAIN order' : /\ s.order[i] = Name(order'[i])
                              /\ s.flags[s.order[i]] = flag'[order'[i]]
                              /\ s.pf[s.order[i]] = pfail'[order'[i]]
  /\ s.met.total = met'.total /\ s.met.ok = met'.ok /\ s.met.failed = met'.failed /\ s.met.limited = met'.limited
  /\ \A b \in B : MbOf(s, b).total = mb'[b].total /\ MbOf(s, b).failed = mb'[b].failed

Closes == SysAt(l + 1) # 0 /\ Matches(Tr[SysAt(l + 1)])

TraceInit == /\ l = 1 /\ mode = "skip" /\ seg = "none" /\ note = <<>>
             /\ strat = (CHOOSE s \in Strategies : TRUE)
             /\ order = [i \in 1..N0 |-> i]
             /\ flag = [b \in B |-> TRUE] /\ age = [b \in B |-> 0] /\ pfail = [b \in B |-> 0]
             /\ rr = 0 /\ cw = [b \in B |-> 0] /\ infl = [b \in B |-> 0]
             /\ probe = [b \in B |-> "ok"] /\ mirror = [b \in B |-> TRUE] /\ evs = <<>>
             /\ bucket = [c \in Clients |-> [present |-> FALSE, tokens |-> 0, since |-> 0]]
             /\ bk = [state |-> "closed", failures |-> 0, successes |-> 0, trials |-> 0, hasFail |-> FALSE, failAge |-> 0, openAge |-> 0]
             /\ met = [total |-> 0, ok |-> 0, failed |-> 0, limited |-> 0]
             /\ mb = [b \in B |-> [total |-> 0, failed |-> 0]]
             /\ cbm = "none" /\ out = [kind |-> "init", b |-> 0]

Followed(c) == /\ c.strategy \in Strategies /\ Len(c.backends) = N0 /\ c.sys
               /\ \A i \in 1..N0 : c.backends[i].name = Name(i) /\ c.backends[i].w = Weight[i]
               /\ c.passive.on = PassiveOn /\ c.active.on = ActiveOn
               /\ (PassiveOn => c.passive.thr = Thr) /\ c.passive.win = Win
               /\ c.rl.on = RlOn /\ (RlOn => c.rl.max = RlMax /\ c.rl.refill = 2 * RlR)
               /\ c.cb.on = CbOn /\ (CbOn => c.cb.ft = FT /\ c.cb.st = ST /\ c.cb.mr = MR /\ c.cb.iv = IV /\ c.cb.to = TO)

TReset == /\ E.ev = "cfg"
          /\ strat' = IF E.cfg.strategy \in Strategies THEN E.cfg.strategy ELSE strat
          /\ order' = [i \in 1..N0 |-> i]
          /\ flag' = [b \in B |-> TRUE] /\ age' = [b \in B |-> 0] /\ pfail' = [b \in B |-> 0]
          /\ rr' = 0 /\ cw' = [b \in B |-> 0] /\ infl' = [b \in B |-> 0]
          /\ probe' = [b \in B |-> "ok"] /\ mirror' = [b \in B |-> TRUE] /\ evs' = <<>>
          /\ bucket' = [c \in Clients |-> [present |-> FALSE, tokens |-> 0, since |-> 0]]
          /\ bk' = [state |-> "closed", failures |-> 0, successes |-> 0, trials |-> 0, hasFail |-> FALSE, failAge |-> 0, openAge |-> 0]
          /\ met' = [total |-> 0, ok |-> 0, failed |-> 0, limited |-> 0]
          /\ mb' = [b \in B |-> [total |-> 0, failed |-> 0]]
          /\ cbm' = "none" /\ out' = [kind |-> "init", b |-> 0]
          /\ mode' = IF Followed(E.cfg) THEN "ok" ELSE "skip"
          /\ seg' = E.id /\ note' = <<>> /\ l' = l + 1

Keep == UNCHANGED <<mode, seg>> /\ note' = <<>> /\ l' = l + 1

Dispatched == LET d == LineOf(l + 1, "dispatch") IN IF d = 0 THEN 0 ELSE IdOf(Tr[d].b)
Replied == LET r == LineOf(l + 1, "reply") IN IF r = 0 THEN "none" ELSE KindOf(Tr[r].kind)

TReq == /\ E.ev = "req" /\ mode = "ok"
        /\ LET c == ClientOf(E.client) o == OutcomeOf(E.plan) IN
           /\ c # 0 /\ o # "?"
           /\ SysReq(c, o)
           /\ out'.b = Dispatched
           /\ (IF out'.kind \in {"ok", "fail", "abort"} THEN "proxied" ELSE out'.kind) = Replied
        /\ Closes /\ Keep
TTick == /\ E.ev = "tick" /\ mode = "ok" /\ E.n = 1 /\ SysTick /\ Closes /\ Keep
TMark == /\ E.ev = "mark" /\ mode = "ok" /\ Lift(Mark(IdOf(E.b)), "mark") /\ Closes /\ Keep
TSetProbe == /\ E.ev = "setprobe" /\ mode = "ok"
             /\ IF probe[IdOf(E.b)] # E.r THEN Lift(SetProbe(IdOf(E.b), E.r), "setprobe") ELSE UNCHANGED svars
             /\ Closes /\ Keep
TAdmin == /\ E.ev = "admin" /\ mode = "ok"
          /\ LET b == IdOf(E.name) IN
             CASE E.op = "add" /\ E.status = 201 -> b # 0 /\ Lift(Add(b), "add")
               [] E.op = "remove" /\ E.status = 200 /\ b \in SeqToSet(order) -> Lift(RemoveEff(b), "remove")
               [] E.op = "strategy" /\ E.status = 200 /\ E.s # strat -> Lift(SetStrategy(E.s), "strategy")
               [] OTHER -> UNCHANGED svars
          /\ Closes /\ Keep

Conform == TReq \/ TTick \/ TMark \/ TSetProbe \/ TAdmin
Stepping == E.ev \in {"req", "tick", "mark", "setprobe", "admin"}

TDiverge ==
  /\ mode = "ok" /\ Stepping /\ ~ENABLED Conform
  /\ UNCHANGED svars
  /\ mode' = "div" /\ UNCHANGED seg /\ l' = l + 1
  /\ note' = [line |-> l, seg |-> seg, ev |-> E,
              model |-> [strat |-> strat, order |-> order, flag |-> flag, age |-> age, rr |-> rr, pfail |-> pfail,
                         bk |-> bk, bucket |-> bucket, met |-> met, mb |-> mb, cbm |-> cbm],
              logged |-> IF SysAt(l + 1) # 0 THEN Tr[SysAt(l + 1)] ELSE <<>>,
              dispatched |-> IF E.ev = "req" THEN Dispatched ELSE -1,
              replied |-> IF E.ev = "req" THEN Replied ELSE "-"]

Other == /\ \/ (mode = "ok" /\ ~Stepping /\ E.ev # "cfg")
            \/ (mode # "ok" /\ E.ev # "cfg")
         /\ UNCHANGED svars /\ Keep

TraceNext == l <= Len(Tr) /\ (TReset \/ Conform \/ TDiverge \/ Other)
Report == note = <<>> \/ PrintT("MDIV " \o ToJson(note))
Consumed == TLCGet("stats").diameter - 1 = Len(Tr)

=============================================================================
