CONSTANTS
  CfgSet <- CfgRace
  CA0 = 6
  G = 3
  Fixed = TRUE
INIT MCInit
NEXT GenNext
VIEW GenView
INVARIANTS EmitInit
ACTION_CONSTRAINT Emit
