------------------------------ MODULE HealthRace ------------------------------
(* M (fine-grained) -- the critical sections of the balancer's health         *)
(* transitions and of the in-flight gauge protocol, one action per lock       *)
(* acquisition / publish step (each preceded in the code by a vgate):         *)
(*   IsBackendHealthy : hb:read (RLock, copy flag+deadline) ; hb:expire       *)
(*                      (Lock, double check, flag := TRUE) ; hb:mirror        *)
(*                      (publish TRUE to the metrics mirror, outside the lock)*)
(*   MarkBackendUnhealthy : mark:lock (Lock, flag := FALSE, deadline := now+W,*)
(*                      publish FALSE inside the lock)                        *)
(*   active probe     : IsBackendHealthy ; the probe exchange ; probe:lock    *)
(*                      (Lock, flag := TRUE) ; probe:mirror (publish TRUE)    *)
(*   proxyRequest     : gauge++ ; px:pubinc (read gauge, publish) ; exchange ;*)
(*                      gauge-- ; px:pubdec (read gauge, publish)             *)
(* Threads run one operation each; time is a tick counter.  The observer's    *)
(* clauses appear as state invariants over the window of the LAST ejection.   *)
EXTENDS Integers, Sequences, FiniteSets, TLC

CONSTANTS Threads, Ops, W, MaxNow, Fixed
\* Ops: function thread -> "check" | "mark" | "probe" | "request"
VARIABLES pc, flag, until, mirror, now, marked, lastMark, loc, gauge, gmirror, act

vars == <<pc, flag, until, mirror, now, marked, lastMark, loc, gauge, gmirror, act>>

Init == /\ pc = [t \in Threads |-> "start"]
        /\ flag = TRUE /\ until = 0 /\ mirror = TRUE /\ now = 1
        /\ marked = FALSE /\ lastMark = 0
        /\ loc = [t \in Threads |-> [f |-> TRUE, u |-> 0, g |-> 0]]
        /\ gauge = 0 /\ gmirror = 0
        /\ act = [a |-> "init"]

InWindow == marked /\ now - lastMark <= W

Goto(t, l) == pc' = [pc EXCEPT ![t] = l]
Keep(vs) == UNCHANGED vs

\* ---- IsBackendHealthy (also the first phase of a probe)
Read(t) == /\ pc[t] \in {"start"} /\ Ops[t] \in {"check", "probe"}
           /\ loc' = [loc EXCEPT ![t] = [@ EXCEPT !.f = flag, !.u = until]]
           /\ Goto(t, IF ~flag /\ now > until THEN "expire" ELSE IF Ops[t] = "probe" /\ flag THEN "exchange" ELSE "done")
           /\ Keep(<<flag, until, mirror, now, marked, lastMark, gauge, gmirror>>)
Expire(t) == /\ pc[t] = "expire"
             /\ IF ~flag /\ now > until
                THEN flag' = TRUE /\ (IF Fixed THEN mirror' = TRUE ELSE UNCHANGED mirror) /\ Goto(t, IF Fixed THEN (IF Ops[t] = "probe" THEN "exchange" ELSE "done") ELSE "hbmirror")
                ELSE UNCHANGED <<flag, mirror>> /\ Goto(t, "done")
             /\ Keep(<<until, now, marked, lastMark, loc, gauge, gmirror>>)
HbMirror(t) == /\ pc[t] = "hbmirror" /\ mirror' = TRUE
               /\ Goto(t, IF Ops[t] = "probe" THEN "exchange" ELSE "done")
               /\ Keep(<<flag, until, now, marked, lastMark, loc, gauge, gmirror>>)
\* ---- the probe's network exchange (time may pass), then its result is applied
Exchange(t) == /\ pc[t] = "exchange" /\ Goto(t, "probelock")
               /\ Keep(<<flag, until, mirror, now, marked, lastMark, loc, gauge, gmirror>>)
ProbeLock(t) == /\ pc[t] = "probelock"
                /\ IF Fixed
                   THEN \* a successful probe never overrides an ejection window; mirror published under the lock
                        IF ~flag /\ now <= until THEN UNCHANGED <<flag, mirror>> ELSE flag' = TRUE /\ mirror' = TRUE
                   ELSE flag' = TRUE /\ UNCHANGED mirror
                /\ Goto(t, IF Fixed THEN "done" ELSE "probemirror")
                /\ Keep(<<until, now, marked, lastMark, loc, gauge, gmirror>>)
ProbeMirror(t) == /\ pc[t] = "probemirror" /\ mirror' = TRUE /\ Goto(t, "done")
                  /\ Keep(<<flag, until, now, marked, lastMark, loc, gauge, gmirror>>)
\* ---- MarkBackendUnhealthy
Mark(t) == /\ pc[t] = "start" /\ Ops[t] = "mark"
           /\ flag' = FALSE /\ until' = now + W /\ mirror' = FALSE /\ marked' = TRUE /\ lastMark' = now
           /\ Goto(t, "done")
           /\ Keep(<<now, loc, gauge, gmirror>>)
\* ---- proxyRequest gauge protocol (Fixed: the value is read and published in one critical section)
Inc(t) == /\ pc[t] = "start" /\ Ops[t] = "request" /\ gauge' = gauge + 1
          /\ Goto(t, "pubinc")
          /\ Keep(<<flag, until, mirror, now, marked, lastMark, loc, gmirror>>)
\* the value to publish is read when the call's arguments are evaluated, the mirror is written later
\* under the metrics lock
PubIncRead(t) == /\ pc[t] = "pubinc"
                 /\ IF Fixed THEN gmirror' = gauge /\ Goto(t, "serve") /\ UNCHANGED loc
                    ELSE loc' = [loc EXCEPT ![t] = [@ EXCEPT !.g = gauge]] /\ Goto(t, "pubinc2") /\ UNCHANGED gmirror
                 /\ Keep(<<flag, until, mirror, now, marked, lastMark, gauge>>)
PubInc(t) == /\ pc[t] = "pubinc2" /\ gmirror' = loc[t].g /\ Goto(t, "serve")
             /\ Keep(<<flag, until, mirror, now, marked, lastMark, loc, gauge>>)
Dec(t) == /\ pc[t] = "serve" /\ gauge' = gauge - 1 /\ Goto(t, "pubdec")
          /\ Keep(<<flag, until, mirror, now, marked, lastMark, loc, gmirror>>)
PubDecRead(t) == /\ pc[t] = "pubdec"
                 /\ IF Fixed THEN gmirror' = gauge /\ Goto(t, "done") /\ UNCHANGED loc
                    ELSE loc' = [loc EXCEPT ![t] = [@ EXCEPT !.g = gauge]] /\ Goto(t, "pubdec2") /\ UNCHANGED gmirror
                 /\ Keep(<<flag, until, mirror, now, marked, lastMark, gauge>>)
PubDec(t) == /\ pc[t] = "pubdec2" /\ gmirror' = loc[t].g /\ Goto(t, "done")
             /\ Keep(<<flag, until, mirror, now, marked, lastMark, loc, gauge>>)

Tick == /\ now < MaxNow /\ now' = now + 1
        /\ Keep(<<pc, flag, until, mirror, marked, lastMark, loc, gauge, gmirror>>)

Step(t) == Read(t) \/ Expire(t) \/ HbMirror(t) \/ Exchange(t) \/ ProbeLock(t) \/ ProbeMirror(t) \/ Mark(t)
           \/ Inc(t) \/ PubIncRead(t) \/ PubInc(t) \/ Dec(t) \/ PubDecRead(t) \/ PubDec(t)
Next == (\E t \in Threads : Step(t) /\ act' = [a |-> "step", t |-> t]) \/ (Tick /\ act' = [a |-> "tick"])

Quiescent == \A t \in Threads : pc[t] = "done"
\* C04: while the last ejection's window runs, neither the flag nor the mirror says healthy
FlagSafe == InWindow => ~flag
MirrorSafe == InWindow => ~mirror
\* C13: at quiescence the published gauge equals the real one (0)
GaugeSafe == Quiescent => (gauge = 0 /\ gmirror = gauge)
SView == <<pc, flag, until, mirror, now, marked, lastMark, loc, gauge, gmirror>>
=============================================================================
