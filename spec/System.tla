------------------------------- MODULE System -------------------------------
(* M -- the whole request path of LoadBalancer.ServeHTTP as one sequential  *)
(* machine: Pool.tla (selection, health windows, passive counting, probe    *)
(* rounds, admin operations) composed with the per-client token bucket      *)
(* (ratelimiter.Allow), the circuit breaker (the sequential quotient of     *)
(* Breaker.tla: beforeRequest ; admission ; fn ; afterRequest of ONE caller)*)
(* and the metrics collector, in the order the code runs them:              *)
(*                                                                          *)
(*   RecordRequest ; Allow(client) -- 429, RecordRateLimitedRequest         *)
(*   ; breaker admission           -- 503 open / 429 half-open budget,      *)
(*                                    RecordResponse(false)                 *)
(*   ; findHealthyBackend          -- 503 none, RecordResponse(false),      *)
(*                                    the breaker sees a SUCCESS            *)
(*   ; proxy                       -- RecordResponse / RecordBackendRequest *)
(*                                    ; passive counting ; breaker accounts *)
(*                                    >= 500 and aborted responses as fail  *)
(*                                                                          *)
(* Time is Pool's tick (2 s in the harness): window Win, breaker interval   *)
(* IV and timeout TO are "k ticks and a half" (2k+1 s), the refill period   *)
(* is exactly RlR ticks.  The limiter's cleanup (every 10 min) lies beyond  *)
(* every replayed run and is modelled separately (Limiter, LimiterRace).    *)
EXTENDS Pool

CONSTANTS RlOn, RlMax, RlR,          \* rate limiter: on, bucket size, ticks per token
          CbOn, FT, ST, MR, IV, TO   \* breaker: thresholds, half-open budget, interval, timeout (ticks)

VARIABLES bucket,   \* client -> [present, tokens, since]
          bk,       \* breaker [state, failures, successes, trials, hasFail, failAge, openAge]
          met,      \* published totals [total, ok, failed, limited]
          mb,       \* backend id -> [total, failed]   (kept by NAME: survives remove / re-add)
          cbm,      \* breaker state as last published to the metrics collector ("none" before the first change)
          out       \* what the last step answered

svars == <<vars, bucket, bk, met, mb, cbm, out>>
poolvars == vars

Min(a, b) == IF a < b THEN a ELSE b
FCap == FT + 1

SysInit == /\ Init
           /\ bucket = [c \in Clients |-> [present |-> FALSE, tokens |-> 0, since |-> 0]]
           /\ bk = [state |-> "closed", failures |-> 0, successes |-> 0, trials |-> 0,
                    hasFail |-> FALSE, failAge |-> 0, openAge |-> 0]
           /\ met = [total |-> 0, ok |-> 0, failed |-> 0, limited |-> 0]
           /\ mb = [b \in B |-> [total |-> 0, failed |-> 0]]
           /\ cbm = "none"
           /\ out = [kind |-> "init", b |-> 0]

\* ---------------------------------------------------------------- limiter
LimAllow(c) ==
  IF ~RlOn THEN [ok |-> TRUE, b |-> bucket[c]]
  ELSE LET b0 == IF bucket[c].present THEN bucket[c] ELSE [present |-> TRUE, tokens |-> RlMax, since |-> 0]
           add == b0.since \div RlR
           b1 == IF add > 0 THEN [b0 EXCEPT !.tokens = Min(RlMax, @ + add), !.since = 0] ELSE b0
       IN IF b1.tokens > 0 THEN [ok |-> TRUE, b |-> [b1 EXCEPT !.tokens = @ - 1]] ELSE [ok |-> FALSE, b |-> b1]

\* ---------------------------------------------------------------- breaker (one caller at a time)
BkBefore(k) ==
  IF ~CbOn THEN [adm |-> "run", k |-> k]
  ELSE CASE k.state = "closed" ->
              [adm |-> "run", k |-> IF k.hasFail /\ k.failAge > IV THEN [k EXCEPT !.failures = 0] ELSE k]
         [] k.state = "open" ->
              IF k.openAge > TO THEN [adm |-> "run", k |-> [k EXCEPT !.state = "half", !.trials = 1, !.successes = 0]]
              ELSE [adm |-> "open", k |-> k]
         [] k.state = "half" ->
              IF k.trials >= MR THEN [adm |-> "many", k |-> k]
              ELSE [adm |-> "run", k |-> [k EXCEPT !.trials = @ + 1]]

BkAfter(k, ok) ==
  IF ~CbOn THEN k
  ELSE IF ok
       THEN IF k.state = "half"
            THEN IF k.successes + 1 >= ST
                 THEN [k EXCEPT !.successes = @ + 1, !.state = "closed", !.failures = 0]
                 ELSE [k EXCEPT !.successes = @ + 1]
            ELSE k
       ELSE LET k1 == [k EXCEPT !.hasFail = TRUE, !.failAge = 0, !.failures = Min(@ + 1, FCap)] IN
            IF (k.state = "closed" /\ k1.failures >= FT) \/ k.state = "half"
            THEN [k1 EXCEPT !.state = "open", !.openAge = 0]
            ELSE k1

\* ---------------------------------------------------------------- one client request
SysReq(c, o) ==
  LET la == LimAllow(c) IN
  /\ bucket' = [bucket EXCEPT ![c] = la.b]
  /\ IF ~la.ok
     THEN /\ met' = [met EXCEPT !.total = @ + 1, !.limited = @ + 1]
          /\ out' = [kind |-> "limited", b |-> 0]
          /\ UNCHANGED <<bk, mb, cbm, poolvars>>
     ELSE LET adm == BkBefore(bk) IN
          IF adm.adm # "run"
          THEN /\ bk' = adm.k
               /\ met' = [met EXCEPT !.total = @ + 1, !.failed = @ + 1]
               /\ out' = [kind |-> adm.adm, b |-> 0]
               /\ UNCHANGED <<mb, cbm, poolvars>>
          ELSE LET f == FindBackend(c)
                   good == f.b = 0 \/ o = "ok"           \* what the breaker is told
                   k2 == BkAfter(adm.k, good)
               IN
               /\ ReqWith(c, o, f)
               /\ bk' = k2
               /\ cbm' = IF k2.state # bk.state THEN k2.state ELSE cbm
               /\ met' = IF f.b # 0 /\ o = "ok" THEN [met EXCEPT !.total = @ + 1, !.ok = @ + 1]
                                                ELSE [met EXCEPT !.total = @ + 1, !.failed = @ + 1]
               /\ mb' = IF f.b = 0 THEN mb
                        ELSE [mb EXCEPT ![f.b] = [total |-> @.total + 1, failed |-> IF o = "ok" THEN @.failed ELSE @.failed + 1]]
               /\ out' = [kind |-> IF f.b = 0 THEN "no_backend" ELSE o, b |-> f.b]

\* every other step is Pool's; time also ages the bucket and the breaker clocks
SysTick == /\ Tick
           /\ bucket' = [c \in Clients |-> IF bucket[c].present THEN [bucket[c] EXCEPT !.since = Min(@ + 1, RlMax * RlR)] ELSE bucket[c]]
           /\ bk' = [bk EXCEPT !.failAge = Min(@ + 1, IV + 1), !.openAge = Min(@ + 1, TO + 1)]
           /\ out' = [kind |-> "tick", b |-> 0]
           /\ UNCHANGED <<met, mb, cbm>>

Lift(A, k) == A /\ out' = [kind |-> k, b |-> 0] /\ UNCHANGED <<bucket, bk, met, mb, cbm>>

SysNext == \/ \E c \in Clients, o \in Outcomes : SysReq(c, o)
           \/ SysTick
           \/ \E b \in B : Lift(Mark(b), "mark") \/ Lift(Add(b), "add") \/ Lift(Remove(b), "remove")
           \/ \E b \in B, r \in {"ok", "fail"} : Lift(SetProbe(b, r), "setprobe")
           \/ \E s \in Strategies : Lift(SetStrategy(s), "strategy")

SysSpec == SysInit /\ [][SysNext]_svars

\* ---------------------------------------------------------------- what must hold of the composition
SysTypeOK == /\ bk.state \in {"closed", "open", "half"}
             /\ bk.failures \in 0..FCap /\ bk.trials \in 0..MR /\ bk.successes \in 0..ST
             /\ \A c \in Clients : bucket[c].tokens \in 0..RlMax

\* C13: every request is in exactly one of the published classes; per backend no more than was sent there
Partition == met.total = met.ok + met.failed + met.limited
BackendSum == LET RECURSIVE S(_) S(b) == IF b = 0 THEN 0 ELSE mb[b].total + S(b - 1) IN S(N) <= met.total - met.limited

\* C07: inside the open window nothing is dispatched; in half-open never more than MR trials
OpenBlocks == [][(CbOn /\ bk.state = "open" /\ bk.openAge <= TO /\ out'.kind \notin {"tick", "mark", "add", "remove", "setprobe", "strategy"})
                 => out'.kind \in {"limited", "open"} /\ out'.b = 0]_svars
TrialBudget == bk.state = "half" => bk.trials <= MR
\* the published breaker state is the breaker's state whenever it has changed at all
MirrorCb == cbm = "none" \/ cbm = bk.state

\* C09: a request turned away by the limiter touches nothing but its own bucket and the two counters
LimitedIsInert == [][out'.kind = "limited" => UNCHANGED <<bk, mb, poolvars>>]_svars
\* a request the breaker turns away touches neither the pool nor a backend's numbers
RejectedIsInert == [][out'.kind \in {"open", "many"} => UNCHANGED <<mb, poolvars, bucket>> \/ RlOn]_svars

\* C02 at system level: "no healthy backend" only when every configured backend is inside its window
No503WhileHealthy == [][out'.kind = "no_backend" => \A b \in SeqToSet(order) : ~flag'[b] /\ age[b] <= Win]_svars
=============================================================================
