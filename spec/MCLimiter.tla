------------------------------ MODULE MCLimiter ------------------------------
EXTENDS Limiter, Json
VARIABLES obs, solo, act
O == INSTANCE LimiterObs
mcvars == <<vars, obs, solo, act>>

\* the client's private limiter (what the isolation clause compares with)
MCInit == /\ Init /\ obs = O!ObsInit(cf) /\ act = [a |-> "init"]
          /\ solo = [c \in Clients |-> Absent]

MCAllow(c) ==
  LET s0 == IF solo[c].present THEN solo[c] ELSE [present |-> TRUE, tokens |-> MaxT, since |-> 0]
      s1 == Refill(s0)
      sok == s1.tokens > 0
  IN /\ Allow(c)
     /\ solo' = [solo EXCEPT ![c] = IF sok THEN [s1 EXCEPT !.tokens = @ - 1] ELSE s1]
     /\ act' = [a |-> "allow", c |-> c]
     /\ obs' = O!ObsAllow(obs, c, evs'[1].res, sok)

MCTick == /\ Tick
          /\ solo' = [c \in Clients |->
                        IF solo[c].present /\ solo[c].since >= CA THEN Absent
                        ELSE IF solo[c].present THEN [solo[c] EXCEPT !.since = Min(@ + 1, SCap)]
                        ELSE solo[c]]
          /\ act' = [a |-> "tick"]
          /\ obs' = O!ObsTick(obs, 1)

MCNext == (\E c \in Clients : MCAllow(c)) \/ MCTick

NoViolation == obs.viol = <<>>
Bound == obs.now <= 7 /\ \A c \in DOMAIN obs.adm : Len(obs.adm[c]) <= 5 /\ TLCGet("level") <= 8

CfgQuick == {[max |-> m, r |-> r] : m \in 1..4, r \in {1, 3}}
CfgIso == {[max |-> 2, r |-> 1], [max |-> 2, r |-> 3], [max |-> 1, r |-> 2]}
CfgAll == {[max |-> m, r |-> r] : m \in 1..5, r \in 1..3}

SView == <<cf, bucket>>
View == <<SView, obs, solo>>
GenView == SView
EmitInit == act.a # "init" \/ PrintT("IN " \o ToJson([s |-> ToString(SView), cf |-> cf]))
Emit == PrintT("TR " \o ToJson([from |-> ToString(SView), act |-> act', to |-> ToString(SView')]))
=============================================================================
