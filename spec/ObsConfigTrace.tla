---------------------------- MODULE ObsConfigTrace ----------------------------
EXTENDS Config, Json, IOUtils
Tr == ndJsonDeserialize(IOEnv.TRACE_FILE)
VARIABLES l, viol
Init == l = 1 /\ viol = <<>>
Next == /\ l <= Len(Tr) /\ l' = l + 1 /\ viol' = IF Tr[l].c.kind = "proc" THEN CheckProc(Tr[l].c, Tr[l].o) ELSE Check(Tr[l].c, Tr[l].o)
Report == viol = <<>> \/ PrintT("VIOL " \o ToJson([line |-> l - 1, v |-> viol]))
Consumed == TLCGet("stats").diameter - 1 = Len(Tr)
=============================================================================
