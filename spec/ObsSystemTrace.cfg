INIT Init
NEXT Next
INVARIANT Report
POSTCONDITION Consumed
CHECK_DEADLOCK FALSE
