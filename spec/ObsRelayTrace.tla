---------------------------- MODULE ObsRelayTrace ----------------------------
EXTENDS Relay, Json, IOUtils
Tr == ndJsonDeserialize(IOEnv.TRACE_FILE)
VARIABLES l, viol
ToSet(s) == {s[i] : i \in DOMAIN s}
Side(x) == [req |-> [line |-> x.req.line, body |-> x.req.body, framing |-> x.req.framing, hdrs |-> ToSet(x.req.hdrs)],
            resp |-> [status |-> x.resp.status, interim |-> x.resp.interim, got100 |-> x.resp.got100, hdrs |-> ToSet(x.resp.hdrs), body |-> x.resp.body, framing |-> x.resp.framing],
            streamed |-> x.streamed]
Init == l = 1 /\ viol = <<>>
Next == /\ l <= Len(Tr) /\ l' = l + 1
        /\ viol' = Check(Tr[l].c, [reached |-> Tr[l].o.reached, via |-> Side(Tr[l].o.via), direct |-> Side(Tr[l].o.direct)])
Report == viol = <<>> \/ PrintT("VIOL " \o ToJson([line |-> l - 1, v |-> viol]))
Consumed == TLCGet("stats").diameter - 1 = Len(Tr)
=============================================================================
