------------------------------- MODULE DistObs -------------------------------
(* Obligations for the numeric / concurrent sweeps of harness/distsim, one    *)
(* record per line:                                                            *)
(*  wrr      fresh weighted_round_robin pool, weights w (below 1 counts as 1): *)
(*           every window of sum(w) consecutive picks holds exactly w_i of i   *)
(*  rrcount  n*k concurrent round_robin picks: exactly k each                  *)
(*  jump     the integer jump hash b(k, n), n = 1..N: b(k,1) = 0, b(k,n) < n,  *)
(*           b(k,n+1) \in {b(k,n), n}   (minimal remapping on append)          *)
(*  addr     the choice is a valid backend and depends only on the address     *)
(*  limconc  g goroutines on one bucket: exactly max admitted, others unharmed *)
EXTENDS Integers, Sequences, FiniteSets, TLC, Json, IOUtils
Tr == ndJsonDeserialize(IOEnv.TRACE_FILE)
VARIABLES l, viol
W1(x) == IF x < 1 THEN 1 ELSE x
RECURSIVE SumSeq(_, _)
SumSeq(s, i) == IF i > Len(s) THEN 0 ELSE s[i] + SumSeq(s, i + 1)
Count(s, lo, hi, x) == Cardinality({i \in lo..hi : s[i] = x})

CheckWrr(e) ==
  LET w == [i \in DOMAIN e.w |-> W1(e.w[i])]
      tot == SumSeq(w, 1)
      bad == \E start \in 1..(Len(e.picks) - tot + 1) : \E i \in DOMAIN w : Count(e.picks, start, start + tot - 1, i) # w[i]
  IN (IF bad THEN <<[prop |-> "C05", clause |-> "WRRExact_vector"]>> ELSE <<>>)
     \o (IF \E j \in DOMAIN e.picks : e.picks[j] \notin DOMAIN w THEN <<[prop |-> "C05", clause |-> "WRRInvalidPick"]>> ELSE <<>>)
CheckRr(e) == IF \E i \in DOMAIN e.counts : e.counts[i] * e.n # e.total
              THEN <<[prop |-> "C05", clause |-> "RRCount_concurrent"]>> ELSE <<>>
CheckJump(e) ==
  LET s == e.seq IN
  IF s[1] # 0 \/ (\E n \in DOMAIN s : s[n] < 0 \/ s[n] >= n) \/ (\E n \in 1..(Len(s) - 1) : s[n + 1] \notin {s[n], n})
  THEN <<[prop |-> "C06", clause |-> "JumpHashObligation"]>> ELSE <<>>
CheckJumpSummary(e) == IF e.suspects # 0 THEN <<[prop |-> "C06", clause |-> "JumpHashSweep"]>> ELSE <<>>
CheckAddr(e) ==
  (IF \E i \in DOMAIN e.picks : e.picks[i] < 1 \/ e.picks[i] > e.n THEN <<[prop |-> "C06", clause |-> "InvalidChoice"]>> ELSE <<>>)
  \o (IF Cardinality({e.picks[i] : i \in DOMAIN e.picks}) # 1 THEN <<[prop |-> "C06", clause |-> "Affinity_addr"]>> ELSE <<>>)
CheckLim(e) == (IF e.admitted # e.max THEN <<[prop |-> "C09", clause |-> IF e.admitted > e.max THEN "Burst_concurrent" ELSE "Guaranteed_concurrent"]>> ELSE <<>>)
               \o (IF ~e.other THEN <<[prop |-> "C09", clause |-> "Isolation_concurrent"]>> ELSE <<>>)

\* a client keeps, under concurrent traffic of other clients, the backend it gets when served alone
CheckAffConc(e) == IF e.seen # <<e.solo>> THEN <<[prop |-> "C06", clause |-> "Affinity_concurrent"]>> ELSE <<>>

\* C13 under real parallelism: totals are exactly what was sent, per backend exactly what it served, gauges zero
CheckMetConc(e) ==
  (IF e.total # e.sent THEN <<[prop |-> "C13", clause |-> "TotalCount_concurrent"]>> ELSE <<>>)
  \o (IF e.ok + e.failed + e.limited # e.sent THEN <<[prop |-> "C13", clause |-> "Partition_concurrent"]>> ELSE <<>>)
  \o (IF \E i \in DOMAIN e.served : e.btotal[i] # e.served[i] THEN <<[prop |-> "C13", clause |-> "BackendTotals_concurrent"]>> ELSE <<>>)
  \o (IF \E i \in DOMAIN e.bactive : e.bactive[i] # 0 THEN <<[prop |-> "C13", clause |-> "Gauge_concurrent"]>> ELSE <<>>)

\* C08 under real parallelism: a tripped breaker whose timeout has passed lets the trials in, nobody waits forever, and once
\* success_threshold of them succeeded it is closed and serves on
CheckCbStress(e) ==
  IF e.wedged THEN <<[prop |-> "C08", clause |-> "Wedged_parallel"]>>
  ELSE (IF e.tripped # 500 \/ e.blocked # 503 THEN <<[prop |-> "C08", clause |-> "StressSetup"]>> ELSE <<>>)
       \o (IF e.returned # e.total \/ e.ok # e.total THEN <<[prop |-> "C08", clause |-> "TrialRefused_parallel"]>> ELSE <<>>)
       \o (IF e.state # "closed" \/ e.after # 200 THEN <<[prop |-> "C08", clause |-> "NotRecovered_parallel"]>> ELSE <<>>)

Check(e) == CASE e.kind = "wrr" -> CheckWrr(e) [] e.kind = "rrcount" -> CheckRr(e) [] e.kind = "jump" -> CheckJump(e)
              [] e.kind = "jumpsummary" -> CheckJumpSummary(e) [] e.kind = "addr" -> CheckAddr(e) [] e.kind = "limconc" -> CheckLim(e)
              [] e.kind = "affconc" -> CheckAffConc(e)
              [] e.kind = "metconc" -> CheckMetConc(e)
              [] e.kind = "cbstress" -> CheckCbStress(e)
              [] OTHER -> <<>>
Init == l = 1 /\ viol = <<>>
Next == /\ l <= Len(Tr) /\ l' = l + 1 /\ viol' = Check(Tr[l])
Report == viol = <<>> \/ PrintT("VIOL " \o ToJson([line |-> l - 1, v |-> viol]))
Consumed == TLCGet("stats").diameter - 1 = Len(Tr)
=============================================================================
