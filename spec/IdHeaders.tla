------------------------------ MODULE IdHeaders ------------------------------
(* C16 -- request-ID / trace-ID propagation.  A case fixes which features   *)
(* are enabled, the header name (default or custom), the class of the value *)
(* the client supplies for each header, the response path and whether the   *)
(* request-id plugin is in the chain.  The observation lists the values the *)
(* client sent (in), the backend saw (b) and the client got (c) for each    *)
(* header.  Values are compared as opaque strings.                          *)
EXTENDS Integers, Sequences, FiniteSets, TLC

\* uspace_edge: an ID that ends in a non-ASCII space (U+00A0) -- a legal field value that net/http hands over as it is
ValClasses == {"absent", "empty", "long", "punct", "inner_space", "two", "uspace_edge"}
Paths == {"proxied", "limited429", "nobackend503", "toolarge413", "plugin401"}

\* bown: the backend's reply carries ID headers of its own with other values (proxied path only)
Cases == {c \in [reqOn : BOOLEAN, traceOn : BOOLEAN, hdr : {"default", "custom"}, rval : ValClasses,
                 tval : {"absent", "punct"}, path : Paths, plugin : BOOLEAN, bown : BOOLEAN] :
            c.bown => c.path = "proxied"}

Dispatched(c) == c.path = "proxied"
Supplied(in) == Len(in) >= 1 /\ in[1] # ""

\* one feature: enabled flag, values sent / backend-seen / client-got, name for messages,
\* touched = some configured plugin also manages this header (the request-id plugin)
\* With bown the backend's own value follows (the proxy relays backend headers, C01): the FIRST value is the ID.
Feature(on, in, b, cl, disp, nm, touched, bown) ==
  IF on THEN
    (IF Len(cl) = 0 \/ (Len(cl) >= 1 /\ cl[1] = "") \/ (Len(cl) # 1 /\ ~bown) THEN <<nm \o "_MissingOnResponse">> ELSE <<>>)
    \o (IF Supplied(in) /\ Len(cl) >= 1 /\ cl[1] # in[1] THEN <<nm \o "_EchoToClient">> ELSE <<>>)
    \o (IF disp /\ Supplied(in) /\ (Len(b) = 0 \/ (Len(b) >= 1 /\ b[1] # in[1])) THEN <<nm \o "_PassToBackend">> ELSE <<>>)
    \o (IF disp /\ Len(cl) >= 1 /\ (Len(b) = 0 \/ (Len(b) >= 1 /\ b[1] # cl[1])) THEN <<nm \o "_BackendEqClient">> ELSE <<>>)
  ELSE IF touched THEN <<>>
  ELSE (IF disp /\ b # in THEN <<nm \o "_DisabledAltered">> ELSE <<>>)
       \o (IF cl # <<>> /\ ~bown THEN <<nm \o "_DisabledGenerated">> ELSE <<>>)

\* o = [rin, rb, rc, tin, tb, tc, dispatched]
Check(c, o) ==
  Feature(c.reqOn, o.rin, o.rb, o.rc, o.dispatched, "Req", c.plugin /\ c.hdr = "default", c.bown)
  \o Feature(c.traceOn, o.tin, o.tb, o.tc, o.dispatched, "Trace", FALSE, c.bown)
  \o (IF Dispatched(c) # o.dispatched THEN <<"PathMismatch">> ELSE <<>>)

\* generated identifiers of concurrent requests are pairwise distinct
Unique(ids) == Cardinality({ids[i] : i \in DOMAIN ids}) = Len(ids)
CheckBurst(e) == (IF ~Unique(e.rids) THEN <<"Req_NotUnique">> ELSE <<>>) \o (IF ~Unique(e.tids) THEN <<"Trace_NotUnique">> ELSE <<>>)
                 \o (IF Len(e.rids) # e.n \/ Len(e.tids) # e.n THEN <<"Burst_MissingIds">> ELSE <<>>)

\* ---- wire level (real sockets, harness/proxysim relay exchanges of spec/Relay.tla with the ID middleware on):
\* the final response of EVERY proxied exchange -- any status, body framing, interim 1xx responses before it --
\* carries both headers, and the backend saw the values the client gets.
\* reqH / respH: sets of [n, v] (lower-case names) the backend received / the client received
Vals(hs, name) == {h.v : h \in {x \in hs : x.n = name}}
\* first: the first value of each ID header on the final response ("" if absent) -- a backend may add values of its own
CheckWire(on, reached, reqH, respH, first) ==
  IF ~on \/ ~reached THEN <<>>
  ELSE (IF first.rid = "" THEN <<"Req_MissingOnResponse_wire">> ELSE <<>>)
       \o (IF first.tid = "" THEN <<"Trace_MissingOnResponse_wire">> ELSE <<>>)
       \o (IF first.rid # "" /\ Vals(reqH, "x-request-id") # {first.rid} THEN <<"Req_BackendEqClient_wire">> ELSE <<>>)
       \o (IF first.tid # "" /\ Vals(reqH, "x-trace-id") # {first.tid} THEN <<"Trace_BackendEqClient_wire">> ELSE <<>>)
=============================================================================
