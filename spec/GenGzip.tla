-------------------------------- MODULE GenGzip --------------------------------
EXTENDS Gzip, Json
CONSTANT Quick
VARIABLE c
\* quick: pairwise-style slice -- all of ae x ct x size x pre with the other dimensions tied to a rotating pattern
Slice == {x \in Cases : /\ x.level \in {-1, 5}
                        /\ x.pos = (IF x.level = 5 THEN "alone" ELSE IF x.explicit THEN "inner" ELSE "outer")
                        /\ x.status = (IF x.compressible THEN 200 ELSE IF x.setcl THEN 201 ELSE 404)
                        /\ x.flush = (x.explicit = x.compressible)
                        /\ x.interim = (x.setcl /\ x.size \in {"min", "big"})}
Init == c \in (IF Quick THEN Slice ELSE Cases) \cup BigCases \cup ReuseCases
Next == UNCHANGED c
Emit == PrintT("CASE " \o ToJson(c))
=============================================================================
