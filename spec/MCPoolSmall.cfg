CONSTANTS
  N = 3
  N0 = 3
  Strategies <- AllStrategies
  Weight <- W321
  Win = 2
  Thr = 2
  MaxHold = 1
  Clients = {1, 2}
  HashOf <- Hash2
  PassiveOn = TRUE
  ActiveOn = FALSE
  AdminOn = FALSE
  MarkOn = TRUE
  BadOpsOn = FALSE
  Outcomes = {"ok", "fail", "hold"}
INIT MCInit
NEXT MCNext
VIEW View
CONSTRAINT Bound
INVARIANTS NoViolation MirrorSafe
