-------------------------------- MODULE Relay --------------------------------
(* C01 -- end-to-end proxy transparency.  An exchange is described by a value *)
(* per dimension; the harness concretises each value (see harness/proxysim),  *)
(* performs the exchange twice -- through Helios and directly against the     *)
(* same scripted backend -- and records, as opaque strings and sets, what the *)
(* backend received and what the client received on each path.                *)
(*                                                                            *)
(*   Request :  method, request-target, body and end-to-end headers at the    *)
(*              backend are the same on both paths, except that Helios may    *)
(*              add only the headers it documents (Allowed).                  *)
(*   Response:  status, end-to-end headers, body and framing at the client    *)
(*              are the same on both paths.                                   *)
(*   Streaming: every chunk the backend flushes reaches the client before the *)
(*              backend sends the next one.                                   *)
EXTENDS Integers, Sequences, FiniteSets, TLC

Dims == <<
  <<"GET", "HEAD", "POST", "PUT", "DELETE", "OPTIONS", "PATCH">>,                              \* 1 method
  <<"/", "/a/b", "/a%2Fb", "/a%20b/", "//double", "/x/./y">>,                                   \* 2 path
  <<"", "a=1&b=2", "q=%20%26&x", "a=1&a=2;c=3">>,                                              \* 3 query
  <<"none", "multi", "emptyval", "cookies", "accept_enc", "custom_ae", "te_trailers", "xff", "expect_100">>, \* 4 request headers
  <<"none", "cl_small", "cl_32k", "cl_big", "chunked_small", "chunked_big", "chunked_trailer">>, \* 5 request body (chunked_trailer: an announced trailer
                                                                \* field follows the last chunk; the backend's view of it is recorded as a header "trailer:<name>")
  <<"200", "201", "204", "304", "301", "404", "500", "503", "103+404", "103+200", "403early">>,  \* 6 status (103+x: Early Hints first; 403early:
                                                                \* 403, and a request that asks first (Expect: 100-continue) is refused unread)
  <<"plain", "setcookies", "unusual_ct", "pre_gzip", "no_ct", "own_ids">>,                               \* 7 response headers
  <<"none", "cl_small", "cl_64k1", "chunked3", "stream3", "sse", "cl_stream3", "cl_stream_small">>,                              \* 8 response body
  <<"", "/api">>,                                                                               \* 9 backend base path
  <<"round_robin", "least_connections", "weighted_round_robin", "ip_hash", "ip_hash_consistent">>, \* 10 strategy
  <<"ids_on", "ids_off">>,                                                                      \* 11 request/trace id middleware
  <<"noplugins", "logging">>,                                                                   \* 12 non-transforming plugin
  <<"bare", "guards">> >>          \* 13 circuit breaker, rate limiter and passive checks enabled with limits the run never reaches

NDims == Len(Dims)
Idx(d, v) == CHOOSE i \in DOMAIN Dims[d] : Dims[d][i] = v

\* pairwise slices: every pair of values of every pair of dimensions occurs in some case
\* (i < j) the other dimensions take a value that rotates with (a, b), so the slices differ from each other
PairCase(i, j, a, b) == [k \in 1..NDims |-> IF k = i THEN Dims[i][a] ELSE IF k = j THEN Dims[j][b]
                                            ELSE Dims[k][((a * 7 + b * 3 + k + i) % Len(Dims[k])) + 1]]
DimPairs == {p \in (1..NDims) \X (1..NDims) : p[1] < p[2]}
PairCases == UNION {{PairCase(p[1], p[2], a, b) : a \in DOMAIN Dims[p[1]], b \in DOMAIN Dims[p[2]]} : p \in DimPairs}

\* a client that asks before it sends (Expect: 100-continue, body held back) against a backend that accepts and against
\* one that refuses from the header block alone: "100 Continue" reaches the client exactly when the backend issued it
ExpectCases == {[k \in 1..NDims |-> CASE k = 1 -> m [] k = 4 -> "expect_100" [] k = 5 -> b [] k = 6 -> st [] k = 10 -> sg [] k = 11 -> ids
                                      [] k = 12 -> pl [] k = 13 -> "bare" [] OTHER -> Dims[k][1]] :
                  m \in {"POST", "PUT"}, b \in {"cl_small", "cl_32k", "chunked_small"}, st \in {"403early", "200", "404"},
                  sg \in {"round_robin"}, ids \in {"ids_on"}, pl \in {"noplugins", "logging"}}

\* request headers Helios documents adding (lower-case names)
AllowedAdded == {"x-forwarded-for", "x-request-id", "x-trace-id"}
\* response headers Helios documents adding (request/trace-ID propagation, see C16)
AllowedOnResponse == {"x-request-id", "x-trace-id"}
Name(h) == h.n

\* o.via / o.direct = [req |-> [line, body, hdrs (set of [n, v])], resp |-> [status, hdrs, body, framing], streamed (BOOLEAN)]
Check(c, o) ==
  LET v == o.via d == o.direct
      extra == {h \in v.req.hdrs : h \notin d.req.hdrs}
      missing == {h \in d.req.hdrs : h \notin v.req.hdrs /\ Name(h) \notin AllowedAdded}
      rextra == {h \in v.resp.hdrs : h \notin d.resp.hdrs}
      rmissing == {h \in d.resp.hdrs : h \notin v.resp.hdrs}
  IN (IF ~o.reached THEN <<"NotProxied">> ELSE <<>>)
     \o (IF o.reached /\ v.req.line # d.req.line THEN <<"RequestLine">> ELSE <<>>)
     \o (IF o.reached /\ v.req.body # d.req.body THEN <<"RequestBody">> ELSE <<>>)
     \o (IF o.reached /\ v.req.framing # d.req.framing THEN <<"RequestReframed">> ELSE <<>>)
     \o (IF o.reached /\ \E h \in extra : Name(h) \notin AllowedAdded THEN <<"RequestHeaderAdded">> ELSE <<>>)
     \o (IF o.reached /\ missing # {} THEN <<"RequestHeaderDropped">> ELSE <<>>)
     \o (IF v.resp.status # d.resp.status THEN <<"Status">> ELSE <<>>)
     \o (IF v.resp.interim # d.resp.interim THEN <<"InterimResponses">> ELSE <<>>)
     \o (IF v.resp.got100 # d.resp.got100 THEN <<"ContinueHandshake">> ELSE <<>>)
     \o (IF \E h \in rextra : Name(h) \notin AllowedOnResponse THEN <<"ResponseHeaderAdded">> ELSE <<>>)
     \o (IF rmissing # {} THEN <<"ResponseHeaderDropped">> ELSE <<>>)
     \o (IF v.resp.body # d.resp.body THEN <<"ResponseBody">> ELSE <<>>)
     \o (IF v.resp.framing # d.resp.framing THEN <<"Reframed">> ELSE <<>>)
     \o (IF ~v.streamed /\ d.streamed THEN <<"StreamingDelayed">> ELSE <<>>)
=============================================================================
