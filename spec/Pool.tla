-------------------------------- MODULE Pool --------------------------------
(* M -- mechanism model of backend selection, health and the in-flight     *)
(* gauge in internal/loadbalancer: the five strategies' NextBackend, the   *)
(* balancer's findHealthyBackend / IsBackendHealthy / MarkBackendUnhealthy,*)
(* passive counting (handlePassiveHealthCheck), active probe rounds,       *)
(* proxyRequest's gauge protocol and the admin operations add / remove /   *)
(* set_strategy (swap-with-last removal, smooth-WRR weights reset on a     *)
(* strategy switch).  One request is one atomic action (the sequential     *)
(* quotient); the fine-grained races are in Health.tla.                    *)
(*                                                                         *)
(* Time is in ticks; a backend ejected at age 0 is inside its window while *)
(* age <= Win (the harness configures Win ticks as 2*Win+1 seconds with a  *)
(* 2 s tick, so the instant of equality never occurs).                     *)
EXTENDS Integers, Sequences, FiniteSets, TLC

CONSTANTS N,          \* backend ids 1..N ("b1".."bN"); the pool starts with the first N0
          N0,
          Strategies, \* subset of the five strategy names
          Weight,     \* 1..N -> 1..
          Win, Thr, MaxHold,
          Clients,    \* client ids; HashOf[c] abstracts FNV-1a of the address
          HashOf,
          PassiveOn, ActiveOn, AdminOn, MarkOn, BadOpsOn, Outcomes

VARIABLES strat, order, flag, age, pfail, rr, cw, infl, probe, mirror, evs

vars == <<strat, order, flag, age, pfail, rr, cw, infl, probe, mirror, evs>>

B == 1..N
L == 12            \* rotation counter is only observable modulo lcm(1..4)

Cap(n, c) == IF n > c THEN c ELSE n
SeqToSet(s) == {s[i] : i \in DOMAIN s}
SelectSeqF(s, T(_)) == SelectSeq(s, T)

Init == /\ strat \in Strategies
        /\ order = [i \in 1..N0 |-> i]
        /\ flag = [b \in B |-> TRUE]
        /\ age = [b \in B |-> 0]
        /\ pfail = [b \in B |-> 0]
        /\ rr = 0
        /\ cw = [b \in B |-> 0]
        /\ infl = [b \in B |-> 0]
        /\ probe = [b \in B |-> "ok"]
        /\ mirror = [b \in B |-> TRUE]
        /\ evs = <<>>

\* ---------------------------------------------------------------- selection
\* selection state threaded through findHealthyBackend
S0 == [rr |-> rr, cw |-> cw, flag |-> flag, mirror |-> mirror]

\* IsBackendHealthy: lazily ends an elapsed window
Check(s, b) == IF ~s.flag[b] /\ age[b] > Win
               THEN [ok |-> TRUE, s |-> [s EXCEPT !.flag[b] = TRUE, !.mirror[b] = TRUE]]
               ELSE [ok |-> s.flag[b], s |-> s]

\* every selection first re-examines all backends, so that elapsed windows end
\* whichever strategy is active
RECURSIVE Sweep(_, _)
Sweep(s, i) == IF i > Len(order) THEN s ELSE Sweep(Check(s, order[i]).s, i + 1)

Healthy(s) == SelectSeq(order, LAMBDA b : s.flag[b])

MinPos(seq, f(_)) == CHOOSE i \in DOMAIN seq : /\ \A j \in DOMAIN seq : f(seq[i]) <= f(seq[j])
                                               /\ \A j \in DOMAIN seq : (f(seq[j]) = f(seq[i])) => i <= j

RECURSIVE Jump(_, _)
Mv(h, n) == ((h * 7 + n * 3) % n) = 0
Jump(h, n) == IF n <= 1 THEN 0 ELSE IF Mv(h, n) THEN n - 1 ELSE Jump(h, n - 1)

\* strategy.NextBackend: 0 stands for nil
Pick(s, c) ==
  LET H == Healthy(s) IN
  IF Len(H) = 0 THEN [b |-> 0, s |-> s]
  ELSE CASE strat = "round_robin" ->
              LET r == (s.rr + 1) % L IN [b |-> H[(r % Len(H)) + 1], s |-> [s EXCEPT !.rr = r]]
         [] strat = "least_connections" ->
              [b |-> H[MinPos(H, LAMBDA x : infl[x])], s |-> s]
         [] strat = "weighted_round_robin" ->
              LET tot == LET RECURSIVE Sum(_) Sum(i) == IF i > Len(H) THEN 0 ELSE Weight[H[i]] + Sum(i + 1) IN Sum(1)
                  c1  == [b \in B |-> IF b \in SeqToSet(H) THEN s.cw[b] + Weight[b] ELSE s.cw[b]]
                  best == H[MinPos(H, LAMBDA x : 0 - c1[x])]
              IN [b |-> best, s |-> [s EXCEPT !.cw = [c1 EXCEPT ![best] = @ - tot]]]
         [] strat = "ip_hash"  -> [b |-> H[(HashOf[c] % Len(H)) + 1], s |-> s]
         [] strat = "ip_hash_consistent" -> [b |-> H[Jump(HashOf[c], Len(H)) + 1], s |-> s]

RECURSIVE Find(_, _, _)
Find(s, c, i) == IF i = 3 THEN [b |-> 0, s |-> s]
                 ELSE LET p == Pick(s, c) IN
                      IF p.b = 0 THEN [b |-> 0, s |-> p.s]
                      ELSE LET k == Check(p.s, p.b) IN
                           IF k.ok THEN [b |-> p.b, s |-> k.s] ELSE Find(k.s, c, i + 1)

FindBackend(c) == Find(Sweep(S0, 1), c, 0)

\* ---------------------------------------------------------------- actions
Eject(fl, ag, mi, b) == [flag |-> [fl EXCEPT ![b] = FALSE], age |-> [ag EXCEPT ![b] = 0],
                         mirror |-> [mi EXCEPT ![b] = FALSE]]

\* one client request by client c whose backend exchange ends with outcome o
\* f = [b, s]: the selection (0 = none) and the selection state it leaves behind
ReqWith(c, o, f) ==
  /\ rr' = f.s.rr /\ cw' = f.s.cw
  /\ UNCHANGED <<strat, order, probe>>
  /\ IF f.b = 0
     THEN /\ flag' = f.s.flag /\ mirror' = f.s.mirror
          /\ UNCHANGED <<age, pfail, infl>>
          /\ evs' = <<[ev |-> "req", c |-> c, o |-> o], [ev |-> "reply", kind |-> "no_backend", b |-> 0]>>
     ELSE LET b == f.b
              failed == o \in {"fail", "abort"}
              \* an aborted response is recorded as a 502 and counts like any failed response
              cnt == PassiveOn /\ o \in {"fail", "abort", "cancel"}
              trip == cnt /\ pfail[b] + 1 >= Thr
              e == Eject(f.s.flag, age, f.s.mirror, b)
          IN
          /\ (o = "hold" => infl[b] < MaxHold)
          /\ infl' = IF o = "hold" THEN [infl EXCEPT ![b] = @ + 1] ELSE infl
          /\ pfail' = IF cnt THEN [pfail EXCEPT ![b] = IF trip THEN 0 ELSE @ + 1] ELSE pfail
          /\ flag' = IF trip THEN e.flag ELSE f.s.flag
          /\ mirror' = IF trip THEN e.mirror ELSE f.s.mirror
          /\ age' = IF trip THEN e.age ELSE age
          /\ evs' = <<[ev |-> "req", c |-> c, o |-> o], [ev |-> "dispatch", b |-> b],
                      [ev |-> "reply", kind |-> (IF o = "hold" THEN "held" ELSE o), b |-> b]>>

Req(c, o) == ReqWith(c, o, FindBackend(c))

\* a held exchange completes successfully
Release(b) == /\ infl[b] > 0
              /\ infl' = [infl EXCEPT ![b] = @ - 1]
              /\ evs' = <<[ev |-> "release", b |-> b]>>
              /\ UNCHANGED <<strat, order, flag, age, pfail, rr, cw, probe, mirror>>

\* public MarkBackendUnhealthy (also what a failed probe does)
Mark(b) == /\ MarkOn /\ b \in SeqToSet(order)
           /\ LET e == Eject(flag, age, mirror, b) IN flag' = e.flag /\ age' = e.age /\ mirror' = e.mirror
           /\ evs' = <<[ev |-> "mark", b |-> b]>>
           /\ UNCHANGED <<strat, order, pfail, rr, cw, infl, probe>>

SetProbe(b, r) == /\ ActiveOn /\ probe[b] # r
                  /\ probe' = [probe EXCEPT ![b] = r]
                  /\ evs' = <<[ev |-> "setprobe", b |-> b, r |-> r]>>
                  /\ UNCHANGED <<strat, order, flag, age, pfail, rr, cw, infl, mirror>>

\* one tick; with active checks on, every tick ends with a probe round: backends that are
\* (lazily) healthy are probed, a failed probe ejects, a successful one changes nothing
RECURSIVE ProbeRound(_, _)
ProbeRound(s, i) ==
  IF i > Len(order) THEN s
  ELSE LET b == order[i]
           k == IF ~s.flag[b] /\ s.age[b] > Win THEN [s EXCEPT !.flag[b] = TRUE, !.mirror[b] = TRUE] ELSE s
       IN IF ~k.flag[b] THEN ProbeRound(k, i + 1)          \* ejected backends are not probed
          ELSE LET k2 == [k EXCEPT !.evs = Append(@, [ev |-> "probe", b |-> b, r |-> probe[b]])] IN
               IF probe[b] = "fail"
               THEN ProbeRound([k2 EXCEPT !.flag[b] = FALSE, !.age[b] = 0, !.mirror[b] = FALSE], i + 1)
               ELSE ProbeRound(k2, i + 1)

Tick == LET a1 == [b \in B |-> Cap(age[b] + 1, Win + 1)]
            s1 == [flag |-> flag, age |-> a1, mirror |-> mirror, evs |-> <<>>]
            s2 == IF ActiveOn THEN ProbeRound(s1, 1) ELSE s1
        IN /\ age' = s2.age /\ flag' = s2.flag /\ mirror' = s2.mirror
           \* time advances, then the probe round fires at the new instant
           /\ evs' = <<[ev |-> "tick"]>> \o s2.evs
           /\ UNCHANGED <<strat, order, pfail, rr, cw, infl, probe>>

\* ---------------------------------------------------------------- admin
Add(b) == /\ AdminOn /\ b \notin SeqToSet(order)
          /\ order' = Append(order, b)
          /\ flag' = [flag EXCEPT ![b] = TRUE] /\ mirror' = [mirror EXCEPT ![b] = TRUE]
          /\ age' = [age EXCEPT ![b] = 0] /\ cw' = [cw EXCEPT ![b] = 0] /\ infl' = [infl EXCEPT ![b] = 0]
          \* a (re-)added backend is a fresh backend: no failure history under its name
          /\ pfail' = [pfail EXCEPT ![b] = 0]
          /\ evs' = <<[ev |-> "add", b |-> b]>>
          /\ UNCHANGED <<strat, rr, probe>>

RemoveEff(b) ==
  /\ LET i == CHOOSE j \in DOMAIN order : order[j] = b
         last == order[Len(order)]
         o1 == [order EXCEPT ![i] = last]
     IN order' = SubSeq(o1, 1, Len(order) - 1)
  /\ evs' = <<[ev |-> "remove", b |-> b]>>
  /\ UNCHANGED <<strat, flag, age, pfail, rr, cw, infl, probe, mirror>>

\* (the generator only removes idle backends and never the last one; the code has no such restriction, and the
\* trace specification uses RemoveEff directly)
Remove(b) == /\ AdminOn /\ b \in SeqToSet(order) /\ Len(order) > 1 /\ infl[b] = 0
             /\ RemoveEff(b)

\* operations that must fail (or be no-ops) and change nothing: adding a name that is already
\* configured, an unparsable address, an unknown strategy, removing an absent name
BadOp(k, b) == /\ AdminOn /\ BadOpsOn
               /\ k \in {"add_dup", "add_badurl", "strategy_unknown", "remove_absent"}
               /\ (k = "add_dup" => b \in SeqToSet(order))
               /\ (k \in {"remove_absent", "add_badurl"} => b \notin SeqToSet(order))
               /\ (k = "strategy_unknown" => b = 1)
               /\ evs' = <<[ev |-> k, b |-> b]>>
               /\ UNCHANGED <<strat, order, flag, age, pfail, rr, cw, infl, probe, mirror>>

SetStrategy(s) == /\ AdminOn /\ s \in Strategies /\ s # strat
                  /\ strat' = s /\ rr' = 0 /\ cw' = [b \in B |-> 0]
                  /\ evs' = <<[ev |-> "strategy", s |-> s]>>
                  /\ UNCHANGED <<order, flag, age, pfail, infl, probe, mirror>>

Next == \/ \E c \in Clients, o \in Outcomes : Req(c, o)
        \/ \E b \in B : Release(b) \/ Mark(b) \/ Add(b) \/ Remove(b)
        \/ \E b \in B, r \in {"ok", "fail"} : SetProbe(b, r)
        \/ \E s \in Strategies : SetStrategy(s)
        \/ \E b \in B, k \in {"add_dup", "add_badurl", "strategy_unknown", "remove_absent"} : BadOp(k, b)
        \/ Tick

Spec == Init /\ [][Next]_vars
=============================================================================
