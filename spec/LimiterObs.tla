----------------------------- MODULE LimiterObs -----------------------------
(* P -- property observer for C09 (per-client token bucket).  Times are in  *)
(* ticks; refill period R ticks.  Clauses:                                  *)
(*   Window     in every interval [t1,t2] of a client's history at most     *)
(*              max + floor((t2-t1)/R) + 1 requests are admitted (T = 0     *)
(*              gives the burst bound max+1; Burst is the exact bound max   *)
(*              for requests at one instant)                                *)
(*   Burst      at most max admitted at one instant                         *)
(*   Guaranteed a new client gets a full burst; after staying idle for k    *)
(*              refill periods a client is admitted at least min(k,max)     *)
(*              more times (lower bound `lo`)                               *)
(*   Isolation  the verdict equals the verdict of a limiter that only ever  *)
(*              saw this client (run in lockstep by the harness)            *)
EXTENDS Integers, Sequences, FiniteSets

Min(a, b) == IF a < b THEN a ELSE b
Max(a, b) == IF a > b THEN a ELSE b
Upd(f, k, v) == [x \in (DOMAIN f) \cup {k} |-> IF x = k THEN v ELSE f[x]]

ObsInit(c) == [max |-> c.max, r |-> c.r, now |-> 0, adm |-> <<>>, lo |-> <<>>, last |-> <<>>, viol |-> <<>>]
Q(o) == [o EXCEPT !.viol = <<>>]
V(clause, c, info) == [prop |-> "C09", clause |-> clause, c |-> c, info |-> info]

ObsTick(o, n) == [Q(o) EXCEPT !.now = @ + n]

CountFrom(times, i) == Len(times) - i + 1

\* client c asked at time o.now; res = admitted?, solo = verdict of the client's private limiter
ObsAllow(o, c, res, solo) ==
  LET known == c \in DOMAIN o.adm
      times == IF known THEN o.adm[c] ELSE <<>>
      idleTicks == IF known THEN o.now - o.last[c] ELSE 0
      k == idleTicks \div o.r
      lo0 == IF known THEN Max(o.lo[c], Min(k, o.max)) ELSE o.max
      t1 == IF res THEN Append(times, o.now) ELSE times
      vIso == IF res # solo THEN <<V("Isolation", c, IF res THEN "admitted" ELSE "denied")>> ELSE <<>>
      vLo == IF ~res /\ lo0 > 0 THEN <<V("Guaranteed", c, IF known THEN "idle" ELSE "new")>> ELSE <<>>
      vWin == IF res /\ \E i \in DOMAIN t1 : CountFrom(t1, i) > o.max + ((o.now - t1[i]) \div o.r) + 1
              THEN <<V("Window", c, "bound")>> ELSE <<>>
      vBurst == IF res /\ Cardinality({i \in DOMAIN t1 : t1[i] = o.now}) > o.max
                THEN <<V("Burst", c, "instant")>> ELSE <<>>
  IN [Q(o) EXCEPT !.adm = Upd(o.adm, c, t1),
                  !.lo = Upd(o.lo, c, IF res THEN Max(lo0 - 1, 0) ELSE lo0),
                  !.last = Upd(o.last, c, o.now),
                  !.viol = vIso \o vLo \o vWin \o vBurst]
=============================================================================
