INIT Init0
NEXT Next
INVARIANT Emit
CHECK_DEADLOCK FALSE
