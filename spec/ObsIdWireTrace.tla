--------------------------- MODULE ObsIdWireTrace ---------------------------
(* C16 over the socket-level relay exchanges (the cases of spec/Relay.tla): *)
(* c[11] says whether the ID middleware is on.                              *)
EXTENDS IdHeaders, Json, IOUtils
Tr == ndJsonDeserialize(IOEnv.TRACE_FILE)
VARIABLES l, viol
ToSet(s) == {s[i] : i \in DOMAIN s}
Init == l = 1 /\ viol = <<>>
Next == /\ l <= Len(Tr) /\ l' = l + 1
        /\ viol' = CheckWire(Tr[l].c[11] = "ids_on", Tr[l].o.reached, ToSet(Tr[l].o.via.req.hdrs), ToSet(Tr[l].o.via.resp.hdrs), Tr[l].o.via.resp.first)
Report == viol = <<>> \/ PrintT("VIOL " \o ToJson([line |-> l - 1, v |-> viol]))
Consumed == TLCGet("stats").diameter - 1 = Len(Tr)
=============================================================================
