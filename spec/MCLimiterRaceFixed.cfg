CONSTANTS
  CfgSet <- CfgRace
  CA0 = 6
  G = 3
  Fixed = TRUE
INIT MCInit
NEXT MCNext
VIEW View
CONSTRAINT Bound
INVARIANT NoViolation
