--------------------------- MODULE ObsSystemTrace ---------------------------
(* SystemObs (P) run over the "sys" replays of harness/lbsim: one VIOL line *)
(* per request whose before / after states break a clause.                  *)
EXTENDS Integers, Sequences, TLC, Json, IOUtils
O == INSTANCE SystemObs
Tr == ndJsonDeserialize(IOEnv.TRACE_FILE)
VARIABLES l, seg, prev, cur, viol
Zero == [bk |-> [state |-> "closed", f |-> 0, s |-> 0, r |-> 0], pf |-> <<>>, flags |-> <<>>, order |-> <<>>,
         met |-> [total |-> 0, ok |-> 0, failed |-> 0, limited |-> 0], mb |-> <<>>, cbm |-> "none"]
NoReq == [on |-> FALSE, k |-> "", d |-> ""]
Init == l = 1 /\ seg = "none" /\ prev = Zero /\ cur = NoReq /\ viol = <<>>
\* the first "sys" line of a segment only sets the baseline for backends and flags (nothing has been counted before it
\* but the step it closes)
Next ==
  /\ l <= Len(Tr) /\ l' = l + 1
  /\ LET e == Tr[l] IN
     /\ seg' = IF e.ev = "cfg" THEN e.id ELSE seg
     /\ cur' = CASE e.ev = "cfg" -> NoReq
                 [] e.ev = "req" -> [on |-> TRUE, k |-> "", d |-> ""]
                 [] e.ev = "dispatch" /\ cur.on -> [cur EXCEPT !.d = e.b]
                 [] e.ev = "reply" /\ cur.on -> [cur EXCEPT !.k = e.kind]
                 [] e.ev = "sys" -> NoReq
                 [] OTHER -> cur
     /\ prev' = IF e.ev = "cfg" THEN Zero ELSE IF e.ev = "sys" THEN e ELSE prev
     /\ viol' = IF e.ev = "sys" /\ cur.on /\ cur.k # "" /\ prev.order # <<>>
                THEN O!SysObs(prev, e, cur.k, cur.d) ELSE <<>>
Report == viol = <<>> \/ PrintT("VIOL " \o ToJson([line |-> l - 1, seg |-> seg, v |-> viol]))
Consumed == TLCGet("stats").diameter - 1 = Len(Tr)
=============================================================================
