------------------------------ MODULE SizeLimit ------------------------------
(* C14 -- size_limit plugin, response and request side, as observed on a     *)
(* real connection.  A response case is a limit L and a sequence of handler  *)
(* operations WH(status) / W(n) / F (flush); the handler's n-byte writes are *)
(* consecutive slices of "abcdefghij...", so "prefix of" is decidable on the *)
(* wire.  Wire model = net/http's: the status is committed at the first      *)
(* body byte or flush (implicit 200), 204/304 carry no body.                 *)
EXTENDS Integers, Sequences, FiniteSets, TLC

Statuses == {200, 204, 304, 301, 404, 500}
Bodiless(s) == s \in {204, 304}

\* ops: [k |-> "WH", s |-> status] | [k |-> "W", n |-> bytes] | [k |-> "F"] | [k |-> "EH"]
\* EH = an interim response (WriteHeader(103) with a Link header, "Early Hints") before the final one
Ops(L) == {[k |-> "WH", s |-> s, n |-> 0] : s \in Statuses} \cup {[k |-> "W", s |-> 0, n |-> n] : n \in 0..(L + 1)}
          \cup {[k |-> "F", s |-> 0, n |-> 0], [k |-> "EH", s |-> 0, n |-> 0]}

\* the handler's intent under net/http semantics
RECURSIVE Intent(_, _, _)
\* st: [status (0 = not yet decided), total, committed (header on the wire)]
Intent(ops, i, st) ==
  IF i > Len(ops) THEN st
  ELSE LET o == ops[i] IN
       CASE o.k = "WH" -> Intent(ops, i + 1, IF st.status = 0 THEN [st EXCEPT !.status = o.s] ELSE st)
         [] o.k = "W"  -> Intent(ops, i + 1, [st EXCEPT !.status = IF @ = 0 THEN 200 ELSE @, !.total = @ + o.n])
         [] o.k = "F"  -> Intent(ops, i + 1, [st EXCEPT !.status = IF @ = 0 THEN 200 ELSE @])
         [] o.k = "EH" -> Intent(ops, i + 1, st)
IntentOf(ops) == LET r == Intent(ops, 1, [status |-> 0, total |-> 0]) IN
                 [status |-> IF r.status = 0 THEN 200 ELSE r.status, total |-> r.total]

\* legal for net/http: no body bytes for a bodiless status, WriteHeader at most once and first
\* an interim response comes first if at all
Lead(ops) == IF Len(ops) >= 1 /\ ops[1].k = "EH" THEN 1 ELSE 0
WellFormed(ops) ==
  /\ \A i \in DOMAIN ops : ops[i].k = "EH" => i = 1
  /\ \A i \in DOMAIN ops : ops[i].k = "WH" => i = Lead(ops) + 1
  /\ (Len(ops) > Lead(ops) /\ ops[Lead(ops) + 1].k = "WH" /\ Bodiless(ops[Lead(ops) + 1].s))
        => \A i \in DOMAIN ops : ops[i].k = "W" => ops[i].n = 0
ExpectedInterim(ops) == IF Lead(ops) = 1 THEN <<103>> ELSE <<>>

\* something was put on the wire before the write that crosses the limit
RECURSIVE SentBeforeExcess(_, _, _, _)
SentBeforeExcess(ops, i, acc, L) ==
  IF i > Len(ops) THEN FALSE
  ELSE LET o == ops[i] IN
       IF o.k = "W" /\ acc + o.n > L THEN FALSE
       ELSE IF o.k = "W" \/ o.k = "F" THEN TRUE       \* even a zero-length Write commits the header in net/http
       ELSE SentBeforeExcess(ops, i + 1, acc, L)

\* o = [status, len (body bytes received), prefix (BOOLEAN: body is a prefix of the handler's bytes),
\*      hdr (BOOLEAN: the handler's end-to-end header arrived)]
CheckResp(c, o) ==
  LET it == IntentOf(c.ops) IN
  IF it.total <= c.limit
  THEN (IF o.status # it.status THEN <<"WithinLimit_Status">> ELSE <<>>)
       \o (IF o.len # it.total \/ ~o.prefix THEN <<"WithinLimit_Body">> ELSE <<>>)
       \o (IF ~o.hdr THEN <<"WithinLimit_Header">> ELSE <<>>)
       \o (IF o.interim # ExpectedInterim(c.ops) THEN <<"WithinLimit_Interim">> ELSE <<>>)
  ELSE (IF o.len > c.limit THEN <<"ResponseExceedsLimit">> ELSE <<>>)
       \o (IF ~o.prefix THEN <<"TruncatedNotPrefix">> ELSE <<>>)
       \o (IF o.len = 0 /\ ~SentBeforeExcess(c.ops, 1, 0, c.limit) /\ o.status # 413 THEN <<"Excess_No413">> ELSE <<>>)
       \o (IF o.status \notin {it.status, 413} THEN <<"Excess_Status">> ELSE <<>>)

\* request side: c = [limit, size, framing \in {"cl","chunked"}];
\* o = [status, got (bytes the backend handler received), called (handler invoked)]
CheckReq(c, o) ==
  (IF o.got > c.limit THEN <<"BackendGotTooMuch">> ELSE <<>>)
  \o (IF c.framing = "cl" /\ c.size > c.limit /\ (o.status # 413 \/ o.called) THEN <<"DeclaredTooLarge_Not413">> ELSE <<>>)
  \o (IF c.size <= c.limit /\ (o.status # 200 \/ o.got # c.size) THEN <<"WithinLimit_Request">> ELSE <<>>)

\* HEAD: the handler declares a Content-Length (what a proxied backend does) and sends no body;
\* c = [limit, declared, status]; o = [status, cl (received Content-Length or -1), hdr]
CheckHead(c, o) ==
  (IF o.status # c.status THEN <<"Head_Status">> ELSE <<>>)
  \* (net/http itself drops Content-Length from a 304, so the header is compared for HEAD only)
  \o (IF c.method = "HEAD" /\ o.cl # c.declared THEN <<"Head_ContentLength">> ELSE <<>>)
  \o (IF ~o.hdr THEN <<"Head_Header">> ELSE <<>>)

SeqsUpTo(S, n) == UNION {[1..k -> S] : k \in 0..n}
\* pos: the plugin alone, inside the logging plugin, or outside it
Positions == {"alone", "inner", "outer"}
RespCases(maxL, n) == UNION {{[kind |-> "resp", limit |-> L, ops |-> s, pos |-> p] : s \in {x \in SeqsUpTo(Ops(L), n) : WellFormed(x)}, p \in Positions} : L \in 1..maxL}
ReqCases(maxL) == {[kind |-> "req", limit |-> L, size |-> z, framing |-> f, pos |-> p] :
                     L \in 1..maxL, z \in {0, 1, 2, 3, 4, 5, 6, 40, 400}, f \in {"cl", "chunked"}, p \in Positions}
\* method GET with status 304: Not Modified may carry the length of the representation it stands for (a proxy copies it)
HeadCases(maxL) == {[kind |-> "head", limit |-> L, declared |-> d, status |-> st, method |-> "HEAD", pos |-> p] :
                      L \in 1..maxL, d \in {0, 1, 2, 3, 4, 5, 400, 70000}, st \in {200, 404}, p \in Positions}
                   \cup {[kind |-> "head", limit |-> L, declared |-> d, status |-> 304, method |-> "GET", pos |-> p] :
                      L \in 1..maxL, d \in {1, 2, 5, 400, 70000}, p \in Positions}
=============================================================================
