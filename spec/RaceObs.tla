------------------------------- MODULE RaceObs -------------------------------
(* C12 -- events of the concurrent -race runs.  The happens-before analysis   *)
(* is the Go race detector's; this module only states what may not occur in   *)
(* a run: a reported data race, a panic, a run that does not finish.          *)
EXTENDS Integers, Sequences, FiniteSets, TLC, Json, IOUtils
Tr == ndJsonDeserialize(IOEnv.TRACE_FILE)
VARIABLES l, viol
Init == l = 1 /\ viol = <<>>
Check(e) == CASE e.ev = "race" -> <<"DataRace">>
              [] e.ev = "group" -> (IF Len(e.panics) > 0 THEN <<"Panic">> ELSE <<>>) \o (IF e.stuck THEN <<"Deadlock">> ELSE <<>>)
                                   \o (IF e.ops = 0 THEN <<"EmptyRun">> ELSE <<>>)
              [] OTHER -> <<>>
Next == /\ l <= Len(Tr) /\ l' = l + 1 /\ viol' = Check(Tr[l])
Report == viol = <<>> \/ PrintT("VIOL " \o ToJson([line |-> l - 1, v |-> viol]))
Consumed == TLCGet("stats").diameter - 1 = Len(Tr)
=============================================================================
