INIT Init0
NEXT Next
INVARIANT Report
POSTCONDITION Consumed
CHECK_DEADLOCK FALSE
