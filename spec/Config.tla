------------------------------- MODULE Config -------------------------------
(* C18 -- configuration acceptance as documented.  A configuration is a      *)
(* function from sections to variant names; each variant is concretised to   *)
(* YAML by harness/cfgsim (table there mirrors the names).  Variants starting *)
(* with "i_" violate a documented constraint, all others satisfy them.       *)
(*   Accept(cfg)  <=>  no section holds an invalid variant                   *)
(*   accepted  =>  starting (NewLoadBalancer, plugin chain) either works or  *)
(*                 fails with an error -- never a panic; documented sample   *)
(*                 files must load AND start.                                *)
EXTENDS Integers, Sequences, FiniteSets, TLC

Variants ==
  [port     |-> {"8080", "1", "65535", "i_0", "i_neg", "i_65536"},
   tls      |-> {"off", "on_files", "i_nocert", "i_nokey"},
   timeouts |-> {"none", "all", "zeros", "i_read_neg", "i_dial_neg", "i_shutdown_neg", "i_handler_neg"},
   backends |-> {"one", "three_weighted", "weight0", "i_none", "i_noname", "i_noaddr", "i_weight_neg"},
   strategy |-> {"round_robin", "least_connections", "weighted_round_robin", "ip_hash", "ip_hash_consistent", "unset", "i_random"},
   wspool   |-> {"off", "on", "on_zeros", "on_active0", "i_idle_gt_active", "i_neg_idle", "i_neg_timeout"},
   active   |-> {"off", "on", "i_interval0", "i_timeout0", "i_timeout_ge_interval", "i_nopath"},
   passive  |-> {"off", "on", "i_thr0", "i_timeout0"},
   ratelimit|-> {"off", "on", "i_max0", "i_refill0"},
   breaker  |-> {"off", "on", "on_mr0", "i_ft0", "i_st0", "i_to0", "i_iv0", "i_mr_lt_st"},
   metrics  |-> {"off", "off_port19091", "on", "i_port0", "i_nopath"},
   admin    |-> {"off", "off_port8080", "on", "on_lists", "i_port"},
   loglevel |-> {"info", "debug", "warn", "error", "fatal", "unset", "i_verbose"},
   logformat|-> {"json", "console", "text", "unset", "i_xml"},
   plugins  |-> {"off", "sample_chain", "size_int", "gzip_int_level", "gzip_float_level", "auth", "u_unknown", "u_gzip_nolevel"}]

Sections == DOMAIN Variants
BadNames == {"i_0", "i_65536", "i_dial_neg", "i_ft0", "i_handler_neg", "i_idle_gt_active", "i_interval0", "i_iv0", "i_max0", "i_mr_lt_st", "i_neg", "i_neg_idle", "i_neg_timeout", "i_noaddr", "i_nocert", "i_nokey", "i_noname", "i_none", "i_nopath", "i_port", "i_port0", "i_random", "i_read_neg", "i_refill0", "i_shutdown_neg", "i_st0", "i_thr0", "i_timeout0", "i_timeout_ge_interval", "i_to0", "i_verbose", "i_weight_neg", "i_xml"}
Bad(v) == v \in BadNames
\* variants the validator need not reject but which must make startup fail cleanly
UnstartNames == {"u_gzip_nolevel", "u_unknown"}
StartFails(v) == v \in UnstartNames
Default == [s \in Sections |-> CHOOSE v \in Variants[s] : v \in {"8080", "off", "none", "one", "round_robin", "info", "json"}]

Accept(cfg) == \A s \in Sections : ~Bad(cfg[s])
MustStart(cfg) == Accept(cfg) /\ \A s \in Sections : ~StartFails(cfg[s])

\* o = [load: "ok"|"err"|"panic", start: "ok"|"err"|"panic"|"skipped"]
Check(c, o) ==
  IF c.kind = "file"
  THEN (IF o.load # "ok" THEN <<"DocumentedSampleRejected">> ELSE <<>>)
       \o (IF o.load = "ok" /\ o.start # "ok" THEN <<"DocumentedSampleDoesNotStart">> ELSE <<>>)
  ELSE LET a == Accept(c.cfg) IN
       (IF o.load = "panic" \/ o.start = "panic" THEN <<"Panic">> ELSE <<>>)
       \o (IF a /\ o.load = "err" THEN <<"ValidRejected">> ELSE <<>>)
       \o (IF ~a /\ o.load = "ok" THEN <<"InvalidAccepted">> ELSE <<>>)
       \o (IF MustStart(c.cfg) /\ o.load = "ok" /\ o.start # "ok" THEN <<"AcceptedDoesNotStart">> ELSE <<>>)
       \o (IF a /\ ~MustStart(c.cfg) /\ o.load = "ok" /\ o.start = "ok" THEN <<"StartsHalfConfigured">> ELSE <<>>)

\* ---- process level: the real cmd/helios binary is started with the rendered file (its listeners, the metrics and
\* admin servers included).  Variants named "n_..." are ones the documentation says nothing about: the validator may
\* take or refuse them, but whatever it takes must run or end with an error -- "never panics".
ProcOverrides == {[metrics |-> "on"], [metrics |-> "n_health_path"], [metrics |-> "n_brace_path"], [metrics |-> "n_noslash_path"],
                  [admin |-> "on"], [admin |-> "on_lists"], [metrics |-> "on", admin |-> "on"], [plugins |-> "sample_chain"],
                  [wspool |-> "on"], [active |-> "on"], [breaker |-> "on"], [ratelimit |-> "on"]}
ProcCfg(ov) == [s \in Sections |-> IF s \in DOMAIN ov THEN ov[s] ELSE Default[s]]
ProcCases == {ProcCfg(ov) : ov \in ProcOverrides}
Neutral(cfg) == \E s \in Sections : cfg[s] \in {"n_health_path", "n_brace_path", "n_noslash_path"}
\* o = [load, proc: "running" | "exit_err" | "panic" | "skipped"]
CheckProc(c, o) ==
  (IF o.load = "panic" \/ o.proc = "panic" THEN <<"Panic_process">> ELSE <<>>)
  \o (IF ~Neutral(c.cfg) /\ MustStart(c.cfg) /\ o.load # "ok" THEN <<"ValidRejected">> ELSE <<>>)
  \o (IF ~Neutral(c.cfg) /\ MustStart(c.cfg) /\ o.load = "ok" /\ o.proc # "running" THEN <<"AcceptedDoesNotStart_process">> ELSE <<>>)

\* ---- case spaces
\* all variants of one or two sections, everything else at its default
PairCases == UNION {{[s \in Sections |-> IF s = a THEN va ELSE IF s = b THEN vb ELSE Default[s]] :
                        va \in Variants[a], vb \in Variants[b]} : a \in Sections, b \in Sections}
\* binary product: every section either at its default or at one fixed invalid variant
InvOf == [s \in Sections |-> IF \E v \in Variants[s] : Bad(v) THEN CHOOSE v \in Variants[s] : Bad(v) ELSE Default[s]]
BinCases(k) == {[s \in Sections |-> IF s \in T THEN InvOf[s] ELSE Default[s]] : T \in {X \in SUBSET Sections : Cardinality(X) <= k}}
=============================================================================
