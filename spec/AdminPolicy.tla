---------------------------- MODULE AdminPolicy ----------------------------
(* C10 -- the admin API access policy as the property states it, over an    *)
(* abstract 3-bit address lattice (hosts 0..7; a network is a prefix        *)
(* [p, len], len 0..3, containing host h iff h \div 2^(3-len) = p).  The    *)
(* harness maps hosts/networks to concrete IPv4, IPv6 and IPv4-mapped       *)
(* addresses and CIDRs (single addresses for len = 3 when `single`).        *)
(*                                                                          *)
(*  Served(req) <=> IpOK /\ (endpoint = health \/ AuthOK)                   *)
(*  IpOK   : no list configured, or peer (the CONNECTION's address, never a *)
(*           client-supplied header) parses, is in no deny network and the  *)
(*           allow list is empty or contains it; with a malformed list      *)
(*           entry nothing may be served that the well-formed entries       *)
(*           refuse (fail closed is accepted)                               *)
(*  AuthOK : no token configured, or Authorization is exactly               *)
(*           "Bearer <token>"                                               *)
(*  refused (401/403) => backend set and strategy unchanged, body reveals   *)
(*           nothing                                                        *)
EXTENDS Integers, Sequences, FiniteSets, TLC

Hosts == 0..7
Pow2(n) == IF n = 0 THEN 1 ELSE IF n = 1 THEN 2 ELSE IF n = 2 THEN 4 ELSE 8
InNet(h, net) == h \div Pow2(3 - net.len) = net.p

AllowCand == {[p |-> 0, len |-> 1, single |-> FALSE], [p |-> 2, len |-> 2, single |-> FALSE],
              [p |-> 7, len |-> 3, single |-> TRUE], [p |-> 1, len |-> 3, single |-> FALSE]}
DenyCand  == {[p |-> 1, len |-> 2, single |-> FALSE], [p |-> 5, len |-> 3, single |-> TRUE],
              [p |-> 0, len |-> 0, single |-> FALSE], [p |-> 3, len |-> 3, single |-> FALSE]}

Peers == Hosts \cup {99}          \* 99 = an address string that does not parse
Forged == {"absent", "h0", "h5", "h7", "junk"}    \* client-supplied X-Forwarded-For / X-Real-IP
Families == {"v4", "v6", "mapped", "mappedlist"}   \* mappedlist: IPv4 peer, list entries written in IPv4-mapped notation
Malformed == {"none", "allow", "deny"}
\* spelling of the malformed entry: out-of-range address, blank, blanks only, a host name, a prefix length out of range
MalKinds == {"badip", "blank", "space", "hostname", "cidr_oob"}
\* truncated / onechar: "Bearer " followed by a proper prefix of the token (all but its last character / its first character)
Authz == {"absent", "exact", "wrong", "lower", "twospace", "prefixonly", "notrail", "suffix", "truncated", "onechar"}
Endpoints == {"health", "metrics", "backends", "add", "remove", "strategy"}
Methods == {"GET", "POST", "DELETE"}

\* ---- the policy
Configured(c) == c.allow # {} \/ c.deny # {} \/ c.malformed # "none"
\* A malformed entry still says which list the operator meant to use: an allow list with only a
\* malformed entry is not "no allow list", and a configuration whose only entry is a malformed deny
\* entry must not end up unfiltered.
PeerPasses(c) == /\ c.peer \in Hosts
                 /\ \A n \in c.deny : ~InNet(c.peer, n)
                 /\ ((c.allow = {} /\ c.malformed # "allow") \/ \E n \in c.allow : InNet(c.peer, n))
                 /\ ~(c.malformed = "deny" /\ c.allow = {} /\ c.deny = {})
\* the request MAY be let through the IP layer
IpMay(c) == ~Configured(c) \/ PeerPasses(c)
\* the request MUST be let through the IP layer (with a malformed entry refusing everything is fine)
IpMust(c) == ~Configured(c) \/ (c.malformed = "none" /\ PeerPasses(c))
AuthOK(c) == ~c.token \/ c.authz = "exact"
NeedsAuth(c) == c.endpoint # "health"

MayServe(c) == IpMay(c) /\ (~NeedsAuth(c) \/ AuthOK(c))
MustServe(c) == IpMust(c) /\ (~NeedsAuth(c) \/ AuthOK(c))

\* observed: [status, changed: BOOLEAN (backend list or strategy differs), leak: BOOLEAN (body of a
\* refusal contains a backend name / address / metrics)]
Refused(o) == o.status \in {401, 403, 500, 503}
Check(c, o) ==
  LET v1 == IF ~Refused(o) /\ ~MayServe(c)
            THEN <<IF ~IpMay(c) THEN (IF c.malformed # "none" THEN "MalformedListUnfiltered"
                                      ELSE IF c.xff # "absent" \/ c.xri # "absent" THEN "HeaderBypass" ELSE "IpPolicy")
                   ELSE "AuthBypass">> ELSE <<>>
      v2 == IF Refused(o) /\ MustServe(c) THEN <<"WronglyRefused">> ELSE <<>>
      v3 == IF Refused(o) /\ o.changed THEN <<"RefusedButChanged">> ELSE <<>>
      v4 == IF Refused(o) /\ o.leak THEN <<"RefusalLeaks">> ELSE <<>>
      v5 == IF ~MayServe(c) /\ ~IpMay(c) /\ o.status = 401 THEN <<>> ELSE <<>>
  IN v1 \o v2 \o v3 \o v4

\* ---- case spaces (enumerated by TLC, executed by the harness)
\* nested networks on ONE base address, narrow and wide, in both list orders (rev: the harness configures the lists
\* reversed): whatever a filter does to redundant-looking entries, the wider one still counts
NestAllow == {[p |-> 0, len |-> 1, single |-> FALSE], [p |-> 0, len |-> 2, single |-> FALSE], [p |-> 1, len |-> 1, single |-> FALSE]}
NestDeny  == {[p |-> 0, len |-> 0, single |-> FALSE], [p |-> 0, len |-> 1, single |-> FALSE], [p |-> 0, len |-> 2, single |-> FALSE],
              [p |-> 0, len |-> 3, single |-> TRUE]}
OrderCases == [allow : SUBSET NestAllow, deny : SUBSET NestDeny, malformed : {"none"}, mkind : {"badip"}, peer : Hosts,
               xff : {"absent"}, xri : {"absent"}, family : {"v4", "v6", "mappedlist"}, rev : BOOLEAN,
               token : {FALSE}, authz : {"absent"}, endpoint : {"backends"}, method : {"GET"}]
IpCases0 == [allow : SUBSET AllowCand, deny : SUBSET DenyCand, malformed : Malformed, mkind : MalKinds, peer : Peers,
             xff : Forged, xri : {"absent", "h0", "h5"}, family : Families, rev : {FALSE},
             token : {FALSE}, authz : {"absent"}, endpoint : {"backends"}, method : {"GET"}]
\* the forged-header dimensions are only crossed with well-formed lists and one malformed spelling
IpCases == {c \in IpCases0 : /\ (c.malformed = "none" => c.mkind = "badip")
                             /\ (c.mkind # "badip" => (c.xff = "absent" /\ c.xri = "absent" /\ c.family = "v4"))}
AuthCases == [allow : {{}, {[p |-> 0, len |-> 1, single |-> FALSE]}}, deny : {{}}, malformed : {"none"}, mkind : {"badip"}, peer : {1, 6},
              xff : {"absent"}, xri : {"absent"}, family : {"v4"}, rev : {FALSE},
              token : BOOLEAN, authz : Authz, endpoint : Endpoints, method : Methods]
=============================================================================
