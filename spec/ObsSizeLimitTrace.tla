-------------------------- MODULE ObsSizeLimitTrace --------------------------
EXTENDS SizeLimit, Json, IOUtils
Tr == ndJsonDeserialize(IOEnv.TRACE_FILE)
VARIABLES l, viol
Init == l = 1 /\ viol = <<>>
Next == /\ l <= Len(Tr) /\ l' = l + 1
        /\ viol' = IF Tr[l].c.kind = "resp" THEN CheckResp(Tr[l].c, Tr[l].o)
                   ELSE IF Tr[l].c.kind = "head" THEN CheckHead(Tr[l].c, Tr[l].o) ELSE CheckReq(Tr[l].c, Tr[l].o)
Report == viol = <<>> \/ PrintT("VIOL " \o ToJson([line |-> l - 1, v |-> viol]))
Consumed == TLCGet("stats").diameter - 1 = Len(Tr)
=============================================================================
