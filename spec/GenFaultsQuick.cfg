CONSTANTS
  N = 2
  Quick = TRUE
INIT Init
NEXT Next
INVARIANT Emit
CHECK_DEADLOCK FALSE
