INIT Init0
NEXT Next0
INVARIANT Emit
CHECK_DEADLOCK FALSE
