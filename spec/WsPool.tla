-------------------------------- MODULE WsPool --------------------------------
(* M -- mechanism model of internal/loadbalancer/websocket_pool.go: per       *)
(* backend a LIFO of idle connections stamped with their Put time, Get pops   *)
(* and discards (closes) stale ones, Put closes the connection when the idle  *)
(* list is full, the cleanup ticker (every 3 ticks, between two driver ticks) *)
(* closes connections that would be stale at the next tick, Shutdown closes   *)
(* everything idle and forgets the pools.                                     *)
EXTENDS Integers, Sequences, FiniteSets, TLC

CONSTANTS Backends, Conns, CfgSet
VARIABLES cf, idle, st, phase, evs
\* idle[b]: sequence of [c, age]; st[c] \in {"new","held","idle","closed"}; phase: ticks mod 3
vars == <<cf, idle, st, phase, evs>>
MaxIdle == cf.maxidle
TO == cf.to

Init == /\ cf \in CfgSet
        /\ idle = [b \in Backends |-> <<>>]
        /\ st = [c \in Conns |-> "new"]
        /\ phase = 0
        /\ evs = <<>>

\* a caller returns a connection it holds (a fresh one counts as held)
Put(b, c) ==
  /\ st[c] \in {"new", "held"}
  /\ IF Len(idle[b]) >= MaxIdle
     THEN /\ st' = [st EXCEPT ![c] = "closed"] /\ UNCHANGED idle
          /\ evs' = <<[ev |-> "put", b |-> b, c |-> c, kept |-> FALSE]>>
     ELSE /\ idle' = [idle EXCEPT ![b] = Append(@, [c |-> c, age |-> 0])]
          /\ st' = [st EXCEPT ![c] = "idle"]
          /\ evs' = <<[ev |-> "put", b |-> b, c |-> c, kept |-> TRUE]>>
  /\ UNCHANGED <<cf, phase>>

\* pop from the end, closing stale entries on the way
RECURSIVE PopFresh(_)
PopFresh(s) == IF Len(s) = 0 THEN [got |-> 0, rest |-> <<>>, closed |-> {}]
               ELSE LET e == s[Len(s)] r == SubSeq(s, 1, Len(s) - 1) IN
                    IF e.age > TO THEN LET p == PopFresh(r) IN [p EXCEPT !.closed = @ \cup {e.c}]
                    ELSE [got |-> e.c, rest |-> r, closed |-> {}]

Get(b) ==
  LET p == PopFresh(idle[b]) IN
  /\ idle' = [idle EXCEPT ![b] = p.rest]
  /\ st' = [c \in Conns |-> IF c = p.got THEN "held" ELSE IF c \in p.closed THEN "closed" ELSE st[c]]
  /\ evs' = <<[ev |-> "get", b |-> b, c |-> p.got]>>
  /\ UNCHANGED <<cf, phase>>

Close(b, c) == /\ st[c] = "held"
               /\ st' = [st EXCEPT ![c] = "closed"]
               /\ evs' = <<[ev |-> "close", b |-> b, c |-> c]>>
               /\ UNCHANGED <<cf, idle, phase>>

Tick ==
  LET fire == phase = 2      \* the 30 s cleanup ticker fires during every third 10 s tick
      keep(s) == SelectSeq(s, LAMBDA e : ~(fire /\ e.age >= TO))
      gone == {c \in Conns : \E b \in Backends : \E i \in DOMAIN idle[b] : idle[b][i].c = c /\ fire /\ idle[b][i].age >= TO}
  IN /\ idle' = [b \in Backends |-> [i \in DOMAIN keep(idle[b]) |-> [keep(idle[b])[i] EXCEPT !.age = IF @ > TO THEN @ ELSE @ + 1]]]
     /\ st' = [c \in Conns |-> IF c \in gone THEN "closed" ELSE st[c]]
     /\ phase' = (phase + 1) % 3
     /\ evs' = <<[ev |-> "tick"]>>
     /\ UNCHANGED cf

Stats(b) == /\ evs' = <<[ev |-> "stats", b |-> b, idle |-> Len(idle[b])]>>
            /\ UNCHANGED <<cf, idle, st, phase>>

Shutdown ==
  /\ idle' = [b \in Backends |-> <<>>]
  /\ st' = [c \in Conns |-> IF st[c] = "idle" THEN "closed" ELSE st[c]]
  /\ evs' = <<[ev |-> "shutdown"]>>
  /\ UNCHANGED <<cf, phase>>

Next == \/ \E b \in Backends, c \in Conns : Put(b, c) \/ Close(b, c)
        \/ \E b \in Backends : Get(b) \/ Stats(b)
        \/ Tick \/ Shutdown
IdleCapInv == \A b \in Backends : Len(idle[b]) <= MaxIdle
ExclusiveInv == \A c \in Conns : st[c] = "held" => \A b \in Backends : \A i \in DOMAIN idle[b] : idle[b][i].c # c
=============================================================================
