-------------------------------- MODULE Tunnel --------------------------------
(* C20 (tunnel clause) -- a WebSocket session through Helios with a plugin    *)
(* chain in front of the upgrade: every message arrives at the other end, in  *)
(* order, with the same type and bytes; when one side closes, the other side  *)
(* sees the close.  Message bodies are opaque digests.                        *)
EXTENDS Integers, Sequences, FiniteSets, TLC

Plugins == {"logging", "size_limit", "gzip", "headers", "request-id"}
SeqsUpTo(S, n) == UNION {[1..k -> S] : k \in 0..n}
\* long_session_tokens: the same, the handshake says "Connection: keep-alive, Upgrade" (a token list, as browsers send)
\* long_session: 1.6 s of silence in the middle, with the end-to-end handler timeout configured as 1 s
\* duplex: both sides write ten messages of about 100 kB back to back while reading the other side's -- the two directions
\* of the tunnel are busy at the same time
Scripts == {"ping_pong_small", "sizes_c2s", "sizes_s2c", "interleaved", "burst_s2c", "empty_and_big", "binary_mix", "long_session", "long_session_tokens",
            "duplex"}
Cases(n) == [chain : SeqsUpTo(Plugins, n), script : Scripts, closer : {"client", "server"}, ids : BOOLEAN]

\* o = [upgraded, c2s_sent, c2s_got, s2c_sent, s2c_got (sequences of "type:len:digest"), close_seen (the non-closing side saw the close)]
Check(c, o) ==
  IF ~o.upgraded THEN <<"UpgradeFailed">>
  ELSE (IF o.c2s_got # o.c2s_sent THEN <<IF Len(o.c2s_got) < Len(o.c2s_sent) THEN "ClientToServer_Lost" ELSE "ClientToServer_Altered">> ELSE <<>>)
       \o (IF o.s2c_got # o.s2c_sent THEN <<IF Len(o.s2c_got) < Len(o.s2c_sent) THEN "ServerToClient_Lost" ELSE "ServerToClient_Altered">> ELSE <<>>)
       \o (IF ~o.close_seen THEN <<"CloseNotPropagated">> ELSE <<>>)
=============================================================================
