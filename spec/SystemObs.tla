------------------------------ MODULE SystemObs ------------------------------
(* P -- what the composed request path owes the listed properties, stated   *)
(* over what the real code reported: s0 / s1 are the states harness/lbsim   *)
(* read from the real objects before and after ONE request ("sys" lines:    *)
(* breaker state and counters bk, passive counts pf, health flags, totals   *)
(* met and per-backend numbers mb), k the answer class, d the backend the   *)
(* request reached ("" = none).  Pure operators; no reference to M.         *)
EXTENDS Integers, Sequences

SysObs(s0, s1, k, d) ==
  \* C13: every request lands in exactly one published class, and is counted once
  (IF s1.met.total # s1.met.ok + s1.met.failed + s1.met.limited
   THEN <<[prop |-> "C13", clause |-> "Partition_system"]>> ELSE <<>>)
  \o (IF s1.met.total # s0.met.total + 1 THEN <<[prop |-> "C13", clause |-> "TotalCount_system"]>> ELSE <<>>)
  \o (IF k = "rate_limited" /\ s1.met.limited # s0.met.limited + 1 THEN <<[prop |-> "C13", clause |-> "LimitedCount_system"]>> ELSE <<>>)
  \o (IF d # "" /\ (d \notin DOMAIN s1.mb \/ s1.mb[d].total # (IF d \in DOMAIN s0.mb THEN s0.mb[d].total ELSE 0) + 1)
      THEN <<[prop |-> "C13", clause |-> "BackendTotals_system"]>> ELSE <<>>)
  \* C09: a request the limiter turns away reaches nothing and counts for nothing else
  \o (IF k = "rate_limited" /\ (s1.bk # s0.bk \/ s1.mb # s0.mb \/ s1.pf # s0.pf \/ d # "")
      THEN <<[prop |-> "C09", clause |-> "LimitedNotInert_system"]>> ELSE <<>>)
  \* C07: a request the breaker turns away contacts no backend; while open (and answered so) nothing is dispatched
  \o (IF k \in {"cb_open", "cb_too_many"} /\ (d # "" \/ s1.mb # s0.mb \/ s1.pf # s0.pf)
      THEN <<[prop |-> "C07", clause |-> "RejectedReachedBackend_system"]>> ELSE <<>>)
  \o (IF k = "cb_open" /\ s0.bk.state # "open" THEN <<[prop |-> "C07", clause |-> "OpenAnswerWhileNotOpen_system"]>> ELSE <<>>)
  \o (IF k = "cb_too_many" /\ s0.bk.state # "half" THEN <<[prop |-> "C07", clause |-> "BudgetAnswerWhileNotHalfOpen_system"]>> ELSE <<>>)
  \* C02: "no healthy backend" only when the listing shows none healthy afterwards either
  \o (IF k = "no_backend" /\ (\E n \in DOMAIN s1.flags : s1.flags[n]) THEN <<[prop |-> "C02", clause |-> "NoBackendWhileListedHealthy_system"]>> ELSE <<>>)
=============================================================================
