----------------------------- MODULE MCBreaker -----------------------------
(* M composed with P: TLC decides, for every configuration in CfgSet and   *)
(* every interleaving of the critical sections, whether the mechanism      *)
(* satisfies the observer's clauses; it also emits every transition as a   *)
(* JSON line (ACTION_CONSTRAINT Emit, -workers 1) for replay on the real   *)
(* circuit breaker.                                                        *)
EXTENDS Breaker, Json

VARIABLES obs, act, healed

O == INSTANCE BreakerObs

mcvars == <<vars, obs, act, healed>>

MCInit == /\ Init
          /\ obs = O!ObsInit(cf)
          /\ act = [a |-> "init"]
          /\ healed = FALSE

Quiet(o) == [o EXCEPT !.viol = <<>>]

MCCall == \E c \in Callers, o \in Outcomes :
            /\ (healed => o = "ok")
            /\ Call(c, o)
            /\ act' = [a |-> "call", c |-> c, o |-> o]
            /\ obs' = O!ObsCall(obs, c)

MCStep == \E c \in Callers :
            /\ Step(c)
            /\ act' = [a |-> "step", c |-> c]
            /\ obs' = CASE pc'[c] = "stuck" -> O!ObsStuck(obs, c, pc[c])
                        [] pc[c] = "read" /\ pc'[c] = "idle" -> O!ObsReject(obs, c, res'[c])
                        [] pc[c] = "count" /\ pc'[c] = "idle" -> O!ObsReject(obs, c, res'[c])
                        [] pc[c] = "count" -> O!ObsAdmit(obs, c)
                        [] pc[c] = "after" -> O!ObsDone(obs, c, plan[c], state')
                        [] OTHER -> Quiet(obs)

MCTick == Tick /\ act' = [a |-> "tick"] /\ obs' = O!ObsTick(obs, 1)

Heal == /\ ~healed /\ healed' = TRUE /\ act' = [a |-> "heal"]
        /\ obs' = Quiet(obs) /\ UNCHANGED vars

MCNext == /\ (MCCall \/ MCStep \/ MCTick) /\ UNCHANGED <<cf, healed>>

MCNextHeal == \/ MCNext
              \/ Heal

MCSpec == MCInit /\ [][MCNext]_mcvars

\* ---- safety (C07, C03/C08 "never blocks") ----
Clauses(o) == {o.viol[i].clause : i \in DOMAIN o.viol}
NoViolation == obs.viol = <<>>
HalfOpenBudget == "HalfOpenBudget" \notin Clauses(obs)
TripAndBlock == Clauses(obs) \cap {"TripOnThreshold_OpenBlocks", "ReopenOnTrialFailure"} = {}
NoSpuriousReject == "RejectWhileClosed" \notin Clauses(obs)
CloseOnlyAfterSuccesses == "CloseOnlyAfterSuccesses" \notin Clauses(obs)
NeverBlocks == "NeverBlocks" \notin Clauses(obs)

\* ---- liveness (C08): once the protected function only succeeds, the breaker
\* ---- closes again and stays admitting; no caller blocks forever
LiveSpec == /\ MCInit /\ [][MCNextHeal]_mcvars
            /\ SF_mcvars(MCTick /\ UNCHANGED <<cf, healed>>)
            /\ WF_mcvars(MCStep /\ UNCHANGED <<cf, healed>>)
            /\ WF_mcvars(MCCall /\ UNCHANGED <<cf, healed>>)
Recovers == healed ~> (state = "closed")
Returns == \A c \in Callers : (pc[c] # "idle") ~> (pc[c] = "idle")

\* ---- configuration sets ----
CfgAll == {[ft |-> f, st |-> s, mr |-> m, iv |-> i, to |-> t] :
             f \in 1..3, s \in 1..3, m \in 1..3, i \in 1..2, t \in 1..2}
CfgValid == {c \in CfgAll : c.mr >= c.st}
CfgQuick == {c \in CfgAll : c.iv = 1 /\ c.to = 1}
CfgSys == {[ft |-> 2, st |-> 1, mr |-> 1, iv |-> 2, to |-> 1], [ft |-> 1, st |-> 2, mr |-> 2, iv |-> 1, to |-> 1], [ft |-> 3, st |-> 2, mr |-> 3, iv |-> 1, to |-> 2]}
CfgStarve == {c \in CfgAll : c.mr < c.st /\ c.iv = 1 /\ c.to = 1}
CfgSmall == {[ft |-> f, st |-> s, mr |-> m, iv |-> 1, to |-> 1] : f \in 1..2, s \in 1..2, m \in 1..2}
CfgOne == {[ft |-> 2, st |-> 2, mr |-> 2, iv |-> 2, to |-> 2]}
\* for the concurrent recovery probes of C08 (calls that span a trip and a timeout; success_threshold up to 3)
CfgLive2 == {[ft |-> 1, st |-> 3, mr |-> 3, iv |-> 1, to |-> 1], [ft |-> 1, st |-> 2, mr |-> 2, iv |-> 1, to |-> 1],
             [ft |-> 2, st |-> 2, mr |-> 3, iv |-> 1, to |-> 1]}
CfgBoundary == {[ft |-> 1, st |-> 1, mr |-> 1, iv |-> 1, to |-> 1], [ft |-> 2, st |-> 1, mr |-> 1, iv |-> 1, to |-> 1],
                [ft |-> 1, st |-> 2, mr |-> 2, iv |-> 1, to |-> 1], [ft |-> 2, st |-> 2, mr |-> 2, iv |-> 1, to |-> 1]}

\* ---- transition emission for replay ----
SView == <<cf, state, failures, successes, trials, hasFail, failAge, openAge, pc, plan, stuck>>
View == <<SView, obs>>
EmitInit == act.a # "init" \/ PrintT("IN " \o ToJson([s |-> ToString(SView), cf |-> cf]))
Emit == PrintT("TR " \o ToJson([from |-> ToString(SView), act |-> act', to |-> ToString(SView'),
                                viol |-> obs'.viol]))
=============================================================================
