------------------------------ MODULE GenFaults ------------------------------
EXTENDS Faults, Json
CONSTANTS N, Quick
VARIABLE c
QuickFeats == {[cb |-> FALSE, rl |-> FALSE, passive |-> FALSE, plugins |-> FALSE], [cb |-> TRUE, rl |-> FALSE, passive |-> TRUE, plugins |-> FALSE],
               [cb |-> TRUE, rl |-> TRUE, passive |-> TRUE, plugins |-> TRUE]}
Init == c \in (IF Quick THEN Cases(N, {"round_robin", "least_connections"}, QuickFeats) ELSE Cases(N, Strategies, Features))
Next == UNCHANGED c
Emit == PrintT("CASE " \o ToJson(c))
=============================================================================
