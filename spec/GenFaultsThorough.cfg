CONSTANTS
  N = 2
  Quick = FALSE
INIT Init
NEXT Next
INVARIANT Emit
CHECK_DEADLOCK FALSE
