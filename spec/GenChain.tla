------------------------------ MODULE GenChain ------------------------------
EXTENDS Chain, Json
CONSTANTS NV, NI
VARIABLE c
Init == c \in ValidCases(NV) \cup InvalidCases(NI) \cup ShapeCases
Next == UNCHANGED c
Emit == PrintT("CASE " \o ToJson(c))
=============================================================================
