----------------------------- MODULE GenLinPool -----------------------------
EXTENDS LinPool, Json, IOUtils
VARIABLE c
Cases == IF "TIER" \in DOMAIN IOEnv /\ IOEnv.TIER = "thorough" THEN CasesThorough(0) ELSE CasesQuick(0)
Init0 == c \in Cases
Next0 == UNCHANGED c
Emit == PrintT("CASE " \o ToJson(c))
=============================================================================
