------------------------------ MODULE MCSystem ------------------------------
(* System (M) for TLC: the composed invariants and action properties are    *)
(* checked exhaustively on small constants, and every transition is emitted *)
(* for replay on the real LoadBalancer (harness/lbsim with rate limiter and *)
(* circuit breaker switched on).                                            *)
EXTENDS System, Json

VARIABLE act
mcvars == <<svars, act>>

Name(b) == "b" \o ToString(b)

CfgRec == [strategy |-> strat,
           backends |-> [i \in 1..N0 |-> [name |-> Name(i), w |-> Weight[i]]],
           passive |-> [on |-> PassiveOn, thr |-> Thr, win |-> Win],
           active |-> [on |-> ActiveOn, iv |-> 1],
           rl |-> [on |-> RlOn, max |-> RlMax, refill |-> 2 * RlR],
           cb |-> [on |-> CbOn, ft |-> FT, st |-> ST, mr |-> MR, iv |-> IV, to |-> TO],
           sys |-> TRUE]

MCInit == SysInit /\ act = [a |-> "init"]

MCNext ==
  \/ \E c \in Clients, o \in Outcomes : SysReq(c, o) /\ act' = [a |-> "req", c |-> c, o |-> o]
  \/ SysTick /\ act' = [a |-> "tick"]
  \/ \E b \in B : \/ Lift(Mark(b), "mark") /\ act' = [a |-> "mark", b |-> b]
                  \/ Lift(Add(b), "add") /\ act' = [a |-> "add", b |-> b, w |-> Weight[b]]
                  \/ Lift(Remove(b), "remove") /\ act' = [a |-> "remove", b |-> b]
  \/ \E b \in B, r \in {"ok", "fail"} : Lift(SetProbe(b, r), "setprobe") /\ act' = [a |-> "setprobe", b |-> b, r |-> r]
  \/ \E s \in Strategies : Lift(SetStrategy(s), "strategy") /\ act' = [a |-> "strategy", s |-> s]

MCSpec == MCInit /\ [][MCNext]_mcvars

W321 == [b \in 1..N |-> IF b = 1 THEN 3 ELSE IF b = 2 THEN 2 ELSE 1]
W111 == [b \in 1..N |-> 1]
Hash2 == [c \in Clients |-> c * 5 + 1]

\* the counters only grow: all histories of at most MaxReq requests
CONSTANT MaxReq
Bound == met.total <= MaxReq

\* what identifies a state for replay (the counters and the last answer do not influence what can happen next)
SView == <<strat, order, flag, age, pfail, rr, cw, infl, probe, mirror, bucket, bk>>
EmitInit == act.a # "init" \/ PrintT("IN " \o ToJson([s |-> ToString(SView), cf |-> CfgRec]))
Emit == PrintT("TR " \o ToJson([from |-> ToString(SView), act |-> act', to |-> ToString(SView')]))
=============================================================================
