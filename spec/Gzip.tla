--------------------------------- MODULE Gzip ---------------------------------
(* C15 -- gzip plugin as observed on a real connection: decoding what the     *)
(* client receives according to the headers it receives yields exactly the    *)
(* handler's body with the handler's status; compression happens only when    *)
(* eligible; everything else is byte-identical.  Bodies are opaque digests.   *)
EXTENDS Integers, Sequences, FiniteSets, TLC

\* gzip_q0*: gzip named with weight zero in several spellings ("gzip;q=0", "gzip;q=0.0", "gzip; q=0.000", "gzip;q=0.") --
\* the client refuses gzip, it did not list it as acceptable
AE == {"absent", "gzip", "gzip_deflate", "deflate_gzip", "br_gzipq", "GZIP", "identity", "deflate", "gzipx", "x-gzip",
       "gzip_q0", "gzip_q00", "gzip_q000sp", "gzip_q0dot"}
ListsGzip(a) == a \in {"gzip", "gzip_deflate", "deflate_gzip", "br_gzipq", "GZIP"}
CT == {"json", "json_charset", "plain", "none"}
Matches(t) == t \in {"json", "json_charset"}          \* configured prefix: application/json
Sizes == {"empty", "min-1", "min", "min+1", "big"}
\* around one megabyte and around the 10 MB buffering cap (BigCases only)
BigSizes == {"mb+1", "cap", "cap+1", "cap+100k"}
AtLeastMin(z) == z \notin {"empty", "min-1"}
AtMostCap(z) == z \notin {"cap+1", "cap+100k"}

Cases == [ae : AE, ct : CT, size : Sizes, compressible : BOOLEAN, explicit : BOOLEAN, status : {200, 201, 404},
          pre : BOOLEAN,        \* the handler already sends Content-Encoding: gzip
          setcl : BOOLEAN,      \* the handler declares Content-Length
          flush : BOOLEAN,      \* the handler calls Flush between its two writes (a proxy copy loop does)
          interim : BOOLEAN,    \* the handler sends an interim 103 response first
          writes : {"two"},     \* the body is written in two halves ("32k": in 32 kB pieces, as a proxy copy loop does; BigCases)
          level : {-1, 0, 1, 5, 9}, pos : {"alone", "inner", "outer"}]
BigCases == [ae : {"gzip", "identity"}, ct : {"json"}, size : BigSizes, compressible : BOOLEAN, explicit : {TRUE}, status : {200},
             pre : {FALSE}, setcl : BOOLEAN, flush : BOOLEAN, interim : {FALSE}, writes : {"two", "32k"}, level : {1}, pos : {"alone"}]

\* the body leaves the handler the way io.Copy / a proxy copy loop delivers it: in pieces, every piece in the SAME buffer
\* ("reuse": thirds of the body; "reuse32k": 32 kB pieces of a body of a megabyte and more)
ReuseCases == [ae : {"gzip", "identity"}, ct : {"json", "plain"}, size : {"min-1", "min+1", "big"}, compressible : BOOLEAN, explicit : BOOLEAN,
               status : {200}, pre : BOOLEAN, setcl : BOOLEAN, flush : BOOLEAN, interim : {FALSE}, writes : {"reuse"}, level : {1}, pos : {"alone", "inner"}]
              \cup [ae : {"gzip", "identity"}, ct : {"json"}, size : {"mb+1", "cap+1"}, compressible : {TRUE}, explicit : {TRUE}, status : {200},
                    pre : {FALSE}, setcl : BOOLEAN, flush : {FALSE}, interim : {FALSE}, writes : {"reuse32k"}, level : {1}, pos : {"alone"}]

Eligible(c) == ListsGzip(c.ae) /\ Matches(c.ct) /\ AtLeastMin(c.size) /\ AtMostCap(c.size) /\ ~c.pre

\* o = [status, ce (received Content-Encoding or ""), cl (received Content-Length or -1), rawlen,
\*      raw (digest of received body), decoded (digest after decoding per ce, or "error"), sent (digest of the
\*      handler's body), readerr (the response could not be read to its end)]
Check(c, o) ==
  (IF o.readerr THEN <<"UnreadableResponse">> ELSE <<>>)
  \o (IF o.status # c.status THEN <<"Status">> ELSE <<>>)
  \o (IF ~o.readerr /\ o.decoded # o.sent THEN <<"DecodedBodyDiffers">> ELSE <<>>)
  \o (IF o.cl >= 0 /\ o.cl # o.rawlen THEN <<"StaleContentLength">> ELSE <<>>)
  \o (IF ~c.pre /\ o.ce = "gzip" /\ ~Eligible(c) THEN <<"CompressedThoughIneligible">> ELSE <<>>)
  \o (IF ~Eligible(c) /\ ~o.readerr /\ (o.raw # o.sent \/ o.ce # (IF c.pre THEN "gzip" ELSE "")) THEN <<"NotByteIdentical">> ELSE <<>>)
=============================================================================
