CONSTANT K = 15
INIT Init
NEXT Next
INVARIANT Emit
CHECK_DEADLOCK FALSE
