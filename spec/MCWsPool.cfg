CONSTANTS
  Backends = {1, 2}
  Conns = {1, 2, 3}
  CfgSet <- CfgQuick
INIT MCInit
NEXT MCNext
VIEW View
INVARIANTS NoViolation IdleCapInv ExclusiveInv
