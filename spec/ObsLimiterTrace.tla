--------------------------- MODULE ObsLimiterTrace ---------------------------
EXTENDS Integers, Sequences, TLC, Json, IOUtils
O == INSTANCE LimiterObs
Tr == ndJsonDeserialize(IOEnv.TRACE_FILE)
VARIABLES l, seg, obs
Init == l = 1 /\ seg = "none" /\ obs = O!ObsInit([max |-> 1, r |-> 1])
Next == /\ l <= Len(Tr) /\ l' = l + 1
        /\ LET e == Tr[l] IN
           /\ seg' = IF e.ev = "cfg" THEN e.id ELSE seg
           /\ obs' = CASE e.ev = "cfg" -> O!ObsInit(e.cf)
                       [] e.ev = "tick" -> O!ObsTick(obs, e.n)
                       [] e.ev = "allow" ->
                            LET o1 == O!ObsAllow(obs, e.c, e.res, e.solo)
                            IN \* system level: "excess requests get 429 and are not forwarded"
                               IF "fwd" \in DOMAIN e /\ ((~e.res /\ e.fwd) \/ (~e.res /\ e.status # 429))
                               THEN [o1 EXCEPT !.viol = @ \o <<O!V("LimitedButForwarded", e.c, IF e.fwd THEN "dispatched" ELSE "status")>>]
                               ELSE o1
                       [] OTHER -> O!Q(obs)
Report == obs.viol = <<>> \/ PrintT("VIOL " \o ToJson([line |-> l - 1, seg |-> seg, v |-> obs.viol]))
Consumed == TLCGet("stats").diameter - 1 = Len(Tr)
=============================================================================
