---------------------------- MODULE ObsAdminTrace ----------------------------
(* every executed case (case fields + what the real admin mux did) is       *)
(* judged by AdminPolicy!Check                                              *)
EXTENDS AdminPolicy, Json, IOUtils
Tr == ndJsonDeserialize(IOEnv.TRACE_FILE)
VARIABLES l, viol
ToSet(s) == {s[i] : i \in DOMAIN s}
Init == l = 1 /\ viol = <<>>
Next == /\ l <= Len(Tr) /\ l' = l + 1
        /\ LET e == Tr[l]
               cc == [e.c EXCEPT !.allow = ToSet(e.c.allow), !.deny = ToSet(e.c.deny)]
           IN viol' = Check(cc, e.o)
Report == viol = <<>> \/ PrintT("VIOL " \o ToJson([line |-> l - 1, v |-> viol]))
Consumed == TLCGet("stats").diameter - 1 = Len(Tr)
=============================================================================
