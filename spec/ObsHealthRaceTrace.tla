-------------------------- MODULE ObsHealthRaceTrace --------------------------
(* P over the snapshots gatesim records after every scheduled step: while     *)
(* the window of the last completed ejection runs, neither /v1/backends nor   *)
(* the metrics mirror may report the backend healthy (C04); at quiescence the *)
(* published connection gauge equals the real one, zero (C13).                *)
EXTENDS Integers, Sequences, TLC, Json, IOUtils
Tr == ndJsonDeserialize(IOEnv.TRACE_FILE)
VARIABLES l, seg, w, now, marked, lastMark, viol
Init == l = 1 /\ seg = "none" /\ w = 1 /\ now = 1 /\ marked = FALSE /\ lastMark = 0 /\ viol = <<>>
InWindow == marked /\ now - lastMark <= w
Next == /\ l <= Len(Tr) /\ l' = l + 1
        /\ LET e == Tr[l] IN
           /\ seg' = IF e.ev = "cfg" THEN e.id ELSE seg
           /\ w' = IF e.ev = "cfg" THEN e.w ELSE w
           /\ now' = IF e.ev = "cfg" THEN 1 ELSE IF e.ev = "tick" THEN now + 1 ELSE now
           /\ marked' = IF e.ev = "cfg" THEN FALSE ELSE IF e.ev = "marked" THEN TRUE ELSE marked
           /\ lastMark' = IF e.ev = "marked" THEN now ELSE IF e.ev = "cfg" THEN 0 ELSE lastMark
           /\ viol' = IF e.ev = "snap"
                      THEN (IF InWindow /\ e.flag THEN <<[prop |-> "C04", clause |-> "ListedHealthyInWindow_race"]>> ELSE <<>>)
                           \o (IF InWindow /\ e.mirror THEN <<[prop |-> "C04", clause |-> "MirrorHealthyInWindow_race"]>> ELSE <<>>)
                           \o (IF e.quiescent /\ (e.gauge # 0 \/ e.gmirror # e.gauge) THEN <<[prop |-> "C13", clause |-> "GaugeMirror_race"]>> ELSE <<>>)
                      ELSE IF e.ev = "stuck" THEN <<[prop |-> "C12", clause |-> "Deadlock_race"]>> ELSE <<>>
Report == viol = <<>> \/ PrintT("VIOL " \o ToJson([line |-> l - 1, seg |-> seg, v |-> viol]))
Consumed == TLCGet("stats").diameter - 1 = Len(Tr)
=============================================================================
