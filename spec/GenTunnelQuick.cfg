CONSTANT N = 2
INIT Init
NEXT Next
INVARIANT Emit
CHECK_DEADLOCK FALSE
