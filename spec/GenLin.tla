------------------------------- MODULE GenLin -------------------------------
EXTENDS Lin, Json, IOUtils
VARIABLE c
Cases == IF "TIER" \in DOMAIN IOEnv /\ IOEnv.TIER = "thorough" THEN CasesThorough ELSE CasesQuick
Init0 == c \in Cases
Next == UNCHANGED c
Emit == PrintT("CASE " \o ToJson(c))
=============================================================================
