CONSTANT Space = "ip"
INIT Init
NEXT Next
INVARIANT Emit
CHECK_DEADLOCK FALSE
