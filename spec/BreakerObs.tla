---------------------------- MODULE BreakerObs ----------------------------
(* P -- property observer for C07 (breaker safety) and the "never blocks"  *)
(* clause of C08/C03.  Pure operators over an observer record, so that the *)
(* same definitions are (a) composed with the mechanism model M in         *)
(* MCBreaker (TLC proves M |= P within bounds) and (b) run over events     *)
(* recorded from the real circuit breaker in ObsBreakerTrace.              *)
(*                                                                         *)
(* P is the property as stated, nothing more:                              *)
(*  - the reference mode is derived only from what callers observe         *)
(*    (invoked / admitted / rejected / outcome) and from elapsed time;     *)
(*  - time is in ticks; the harness concretises a bound of k ticks as      *)
(*    (k+1/2) tick durations, so "elapsed > k" is never decided at the     *)
(*    instant of equality (that instant is don't-care in the statement);   *)
(*  - a decision (admit / reject) is judged like a linearizable operation: *)
(*    it is legal if the reference mode allowed it at SOME moment between  *)
(*    the call's invocation and the decision becoming observable;          *)
(*  - where the statement is silent (a request admitted while closed that  *)
(*    finishes during another episode) P follows the publicly observable   *)
(*    State() instead of guessing.                                         *)
EXTENDS Integers, Sequences, FiniteSets

Cap(n, c) == IF n > c THEN c ELSE n

Due(o) == o.mode = "open" /\ o.openAge > o.cfg.to

\* what a pending call has seen since its invocation
Seen(o, p) == [sc |-> p.sc \/ o.mode = "closed",                 \* mode closed: plain admission legal
               sn |-> p.sn \/ o.mode # "closed",                 \* not closed: rejection legal
               st |-> p.st \/ Due(o) \/ (o.mode = "half" /\ o.tAdm < o.cfg.mr)]  \* a trial slot existed
Fresh == [sc |-> FALSE, sn |-> FALSE, st |-> FALSE]

Touch(o) == [o EXCEPT !.pend = [c \in DOMAIN o.pend |-> Seen(o, o.pend[c])]]

\* cfg = [ft, st, mr, iv, to]
ObsInit(cfg) ==
  [cfg |-> cfg, mode |-> "closed", cause |-> "none",
   openAge |-> 0, run |-> 0, runHi |-> 0, hasFail |-> FALSE, failAge |-> 0,
   tAdm |-> 0, tSucc |-> 0, prevAdm |-> 0, kind |-> <<>>, pend |-> <<>>, viol |-> <<>>]

ObsTick(o, n) ==
  Touch([o EXCEPT !.openAge = Cap(@ + n, o.cfg.to + 1),
                  !.failAge = Cap(@ + n, o.cfg.iv + 1),
                  !.viol = <<>>])

V(clause, o, extra) == [clause |-> clause, mode |-> o.mode, cause |-> o.cause,
                        tAdm |-> o.tAdm, tSucc |-> o.tSucc, run |-> o.run, info |-> extra]

Without(f, c) == [x \in (DOMAIN f) \ {c} |-> f[x]]
With(f, c, v) == [x \in (DOMAIN f) \cup {c} |-> IF x = c THEN v ELSE f[x]]

\* an admitted call remembers whether the failure window had already lapsed when it started
NormalKind(o) == [k |-> "normal", lapsed |-> o.hasFail /\ o.failAge > o.cfg.iv]
TrialKind == [k |-> "trial", lapsed |-> FALSE]

\* caller c invokes Execute
ObsCall(o, c) == [o EXCEPT !.viol = <<>>, !.pend = With(o.pend, c, Seen(o, Fresh))]

PendOf(o, c) == IF c \in DOMAIN o.pend THEN Seen(o, o.pend[c]) ELSE Seen(o, Fresh)

\* caller c was admitted: the protected function starts running
ObsAdmit(o, c) ==
  LET p  == PendOf(o, c)
      o0 == [o EXCEPT !.viol = <<>>, !.pend = Without(o.pend, c)] IN
  IF p.sc THEN [o0 EXCEPT !.kind = With(o.kind, c, NormalKind(o))]      \* decided while closed
  ELSE CASE Due(o) ->                                                  \* first trial: a new episode
         Touch([o0 EXCEPT !.mode = "half", !.tAdm = 1, !.tSucc = 0, !.kind = With(o.kind, c, TrialKind)])
    [] o.mode = "half" ->
         Touch([o0 EXCEPT !.tAdm = @ + 1, !.kind = With(o.kind, c, TrialKind),
                          !.viol = IF o.tAdm + 1 > o.cfg.mr
                                   THEN <<V("HalfOpenBudget", o, "admitted")>> ELSE <<>>])
    [] OTHER ->   \* open, timeout not elapsed (never saw closed)
         IF p.st /\ o.prevAdm + 1 <= o.cfg.mr
         THEN [o0 EXCEPT !.prevAdm = @ + 1, !.kind = With(o.kind, c, NormalKind(o))]   \* straggler of the episode just ended
         ELSE [o0 EXCEPT !.kind = With(o.kind, c, NormalKind(o)),
                         !.viol = <<V(IF p.st THEN "HalfOpenBudget"
                                      ELSE IF o.cause = "threshold" THEN "TripOnThreshold_OpenBlocks"
                                      ELSE "ReopenOnTrialFailure", o, "admitted")>>]

\* caller c was rejected without running the function
ObsReject(o, c, kind) ==
  LET p  == PendOf(o, c)
      o0 == [o EXCEPT !.viol = <<>>, !.pend = Without(o.pend, c)] IN
  IF ~p.sn THEN [o0 EXCEPT !.viol = <<V("RejectWhileClosed", o, kind)>>] ELSE o0

\* caller c's function returned with outcome out \in {"ok","err","panic"};
\* pub is the public State() right after the call returned ("none" if unknown)
ObsDone(o, c, out, pub) ==
  LET o0 == [o EXCEPT !.viol = <<>>, !.kind = Without(o.kind, c)]
      kr == IF c \in DOMAIN o.kind THEN o.kind[c] ELSE NormalKind(o)
      k  == kr.k
      \* the failure window lapsed while this call was in flight: the statement does not say
      \* whether its failure continues the run -- follow the public state
      ambiguous == o.hasFail /\ o.failAge > o.cfg.iv /\ ~kr.lapsed
      fail == out # "ok"
  IN
  IF k = "trial" /\ o.mode = "half"
  THEN IF fail
       THEN Touch([o0 EXCEPT !.mode = "open", !.cause = "trial", !.openAge = 0, !.prevAdm = o.tAdm,
                             !.hasFail = TRUE, !.failAge = 0])
       ELSE IF o.tSucc + 1 >= o.cfg.st
            THEN Touch([o0 EXCEPT !.mode = "closed", !.cause = "none", !.tSucc = @ + 1, !.run = 0, !.runHi = 0,
                                  !.hasFail = FALSE])
            ELSE [o0 EXCEPT !.tSucc = @ + 1,
                            !.viol = IF pub = "closed"
                                     THEN <<V("CloseOnlyAfterSuccesses", o, "trial")>> ELSE <<>>]
  ELSE
  CASE o.mode = "closed" ->
         IF fail
         THEN LET gap == o.hasFail /\ o.failAge > o.cfg.iv
                  lo  == IF gap THEN 1 ELSE o.run + 1                       \* run the statement mandates
                  hi  == IF gap /\ ~ambiguous THEN 1 ELSE o.runHi + 1         \* run an implementation may hold
                  trip == lo >= o.cfg.ft \/ (hi >= o.cfg.ft /\ pub = "open")
              IN
              IF trip
              THEN Touch([o0 EXCEPT !.mode = "open", !.cause = "threshold", !.openAge = 0, !.prevAdm = o.cfg.mr,
                                    !.run = lo, !.runHi = hi, !.hasFail = TRUE, !.failAge = 0])
              ELSE [o0 EXCEPT !.run = lo, !.runHi = Cap(hi, o.cfg.ft - 1), !.hasFail = TRUE, !.failAge = 0]
         ELSE o0
    [] o.mode = "half" ->
         \* a request admitted before this episode finishes inside it
         IF ~fail
         THEN [o0 EXCEPT !.viol = IF pub = "closed" /\ o.tSucc < o.cfg.st
                                  THEN <<V("CloseOnlyAfterSuccesses", o, "stale")>> ELSE <<>>]
         ELSE IF pub = "open"     \* statement is silent: follow the public state
              THEN Touch([o0 EXCEPT !.mode = "open", !.cause = "stale", !.openAge = 0, !.prevAdm = o.tAdm])
              ELSE o0
    [] OTHER -> o0

\* C08: end of a recovery script (time > timeout, then a bounded number of successful
\* sequential calls): the last call must have been admitted and the breaker closed
ObsProbe(o, res, pub) ==
  [o EXCEPT !.viol = IF res = "ok" /\ pub = "closed" THEN <<>>
                     ELSE <<V("Recovers", o, res \o "/" \o pub)>>]

\* caller c never came back (lock held forever / deadlock)
ObsStuck(o, c, at) == [o EXCEPT !.viol = <<V("NeverBlocks", o, at)>>]
============================================================================
