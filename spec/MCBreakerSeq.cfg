\* sequential quotient: one caller, every (ft,st,mr) in 1..3^3 with mr >= 1, interval/timeout 1..2
CONSTANTS
  Callers = {1}
  CfgSet <- CfgAll
  CbReenters = FALSE
  Outcomes = {"ok", "err", "panic"}
  TickWhileBusy = FALSE
INIT MCInit
NEXT MCNext
VIEW View
INVARIANTS TypeOK NoViolation
