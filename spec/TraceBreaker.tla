---------------------------- MODULE TraceBreaker ----------------------------
(* Conformance of the real circuit breaker to the mechanism model M          *)
(* (Breaker.tla), in the code -> specification direction: every step the     *)
(* harness lets a goroutine take (one gate release = one critical section)   *)
(* is logged with the breaker's observable state afterwards -- State(),      *)
(* Counts(), where the goroutine is parked next, its result once it is back  *)
(* -- and must be explained by the corresponding action of M leading to a    *)
(* state with exactly those values.  Timer ages are not logged: TLC carries  *)
(* them along from the logged ticks.                                         *)
(*                                                                           *)
(* A step M cannot explain does not stop the run: the segment (one replayed  *)
(* script) is marked diverged ("MDIV {json}" line with the trace line) and   *)
(* skipped to its end.  Divergence is a statement about the MODEL's          *)
(* faithfulness, never a property verdict.                                   *)
EXTENDS Breaker, Json, IOUtils

Tr == ndJsonDeserialize(IOEnv.TRACE_FILE)

VARIABLES l, mode, seg, note
tvars == <<vars, l, mode, seg, note>>

E == Tr[l]

TraceInit ==
  /\ l = 1 /\ mode = "skip" /\ seg = "none" /\ note = <<>>
  /\ cf = [ft |-> 1, st |-> 1, mr |-> 1, iv |-> 1, to |-> 1]
  /\ state = "closed" /\ failures = 0 /\ successes = 0 /\ trials = 0
  /\ hasFail = FALSE /\ failAge = 0 /\ openAge = 0
  /\ pc = [c \in Callers |-> "idle"] /\ plan = [c \in Callers |-> "ok"] /\ res = [c \in Callers |-> "none"]
  /\ stuck = FALSE

\* a new segment: the breaker is built afresh from the logged configuration
TReset ==
  /\ E.ev = "cfg"
  /\ cf' = E.cf
  /\ state' = "closed" /\ failures' = 0 /\ successes' = 0 /\ trials' = 0
  /\ hasFail' = FALSE /\ failAge' = 0 /\ openAge' = 0
  /\ pc' = [c \in Callers |-> "idle"] /\ plan' = [c \in Callers |-> "ok"] /\ res' = [c \in Callers |-> "none"]
  /\ stuck' = FALSE
  /\ mode' = "ok" /\ seg' = E.id /\ note' = <<>> /\ l' = l + 1

\* the logged values, compared with the state M reaches
Match ==
  /\ pc'[E.c] = E.pc
  /\ state' = E.state
  /\ failures' = Cap(E.f, FCap)
  /\ (E.state = "half" => successes' = E.s /\ trials' = E.r)
  /\ (E.pc = "idle" => res'[E.c] = E.res)

Keep == UNCHANGED <<mode, seg>> /\ note' = <<>> /\ l' = l + 1

TTick == /\ E.ev = "tick" /\ mode = "ok"
         /\ failAge' = Cap(failAge + E.n, IV + 1)
         /\ openAge' = Cap(openAge + E.n, TO + 1)
         /\ UNCHANGED <<cf, state, failures, successes, trials, hasFail, pc, plan, res, stuck>>
         /\ Keep

TCall == /\ E.ev = "call" /\ mode = "ok"
         /\ Call(E.c, E.o) /\ UNCHANGED cf
         /\ Keep

\* the state report that follows a call: the goroutine is parked at the first gate, nothing else moved
AfterCall == l > 1 /\ Tr[l - 1].ev = "call"
TStepConform ==
  /\ E.ev = "st" /\ mode = "ok"
  /\ IF AfterCall THEN UNCHANGED vars ELSE (Step(E.c) /\ UNCHANGED cf)
  /\ Match
  /\ Keep

\* M has no step with the logged outcome: mark the segment and stop following it
TStepDiverge ==
  /\ E.ev = "st" /\ mode = "ok"
  /\ ~ENABLED TStepConform
  /\ UNCHANGED vars
  /\ mode' = "div" /\ UNCHANGED seg /\ l' = l + 1
  /\ note' = [line |-> l, seg |-> seg, c |-> E.c, at |-> E.at, logged |-> [state |-> E.state, f |-> E.f, s |-> E.s, r |-> E.r, pc |-> E.pc, res |-> E.res],
              model |-> [state |-> state, failures |-> failures, successes |-> successes, trials |-> trials, pc |-> pc[E.c]]]

\* events that are not steps of M (observer vocabulary), and everything in a segment that is not followed
\* (diverged, or a recovery probe that runs ungated calls)
Other ==
  /\ \/ (mode = "ok" /\ E.ev \in {"admit", "reject", "done", "drift"})
     \/ (mode # "ok" /\ E.ev # "cfg")
  /\ UNCHANGED vars /\ Keep
Unfollowed ==
  /\ mode = "ok" /\ E.ev \in {"probe", "stuck", "skip"}
  /\ UNCHANGED vars /\ mode' = "skip" /\ UNCHANGED seg /\ note' = <<>> /\ l' = l + 1

TraceNext == l <= Len(Tr) /\ (TReset \/ TTick \/ TCall \/ TStepConform \/ TStepDiverge \/ Other \/ Unfollowed)
TraceSpec == TraceInit /\ [][TraceNext]_tvars

Report == note = <<>> \/ PrintT("MDIV " \o ToJson(note))
Consumed == TLCGet("stats").diameter - 1 = Len(Tr)
=============================================================================
