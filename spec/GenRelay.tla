------------------------------- MODULE GenRelay -------------------------------
EXTENDS Relay, Json
VARIABLE c
Init == c \in PairCases
Next == UNCHANGED c
Emit == PrintT("CASE " \o ToJson(c))
=============================================================================
