------------------------------- MODULE GenRelay -------------------------------
EXTENDS Relay, Json
VARIABLE c
Init == c \in PairCases \cup ExpectCases
Next == UNCHANGED c
Emit == PrintT("CASE " \o ToJson(c))
=============================================================================
