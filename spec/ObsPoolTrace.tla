---------------------------- MODULE ObsPoolTrace ----------------------------
(* PoolObs (P) run over events recorded by harness/lbsim from the real      *)
(* balancer.  Deterministic; prints one "VIOL {json}" line per step that    *)
(* violates a clause; POSTCONDITION: the whole trace was consumed.          *)
EXTENDS Integers, Sequences, TLC, Json, IOUtils

O == INSTANCE PoolObs

Tr == ndJsonDeserialize(IOEnv.TRACE_FILE)

VARIABLES l, seg, obs

NoCfg == [strategy |-> "round_robin", backends |-> <<>>, passive |-> [on |-> FALSE, thr |-> 1, win |-> 1],
          active |-> [on |-> FALSE, iv |-> 1]]

Init == l = 1 /\ seg = "none" /\ obs = O!ObsInit(NoCfg)

Next ==
  /\ l <= Len(Tr)
  /\ l' = l + 1
  /\ LET e == Tr[l] IN
     /\ seg' = IF e.ev = "cfg" THEN e.id ELSE seg
     /\ obs' = CASE e.ev = "cfg" -> O!ObsInit(e.cfg)
                 [] e.ev = "tick" -> O!ObsTick(obs, e.n)
                 [] e.ev = "req" -> O!ObsReq(obs, e.id, e.client)
                 [] e.ev = "dispatch" -> O!ObsDispatch(obs, e.id, e.b)
                 [] e.ev = "reply" -> O!ObsReply(obs, e.id, e.status, e.kind, e.h)
                 [] e.ev = "mark" -> O!ObsMark(obs, e.b)
                 [] e.ev = "probe" -> O!ObsProbe(obs, e.b, e.r)
                 [] e.ev = "admin" -> O!ObsAdmin(obs, e.op, e.name, e.w, e.s, e.status, e.pre, e.items, e.bad)
                 [] e.ev = "snap" -> O!ObsSnap(obs, e)
                 [] OTHER -> O!Q(obs)

Report == obs.viol = <<>> \/ PrintT("VIOL " \o ToJson([line |-> l - 1, seg |-> seg, v |-> obs.viol]))
Consumed == TLCGet("stats").diameter - 1 = Len(Tr)
=============================================================================
