CONSTANTS
  Threads = {1, 2, 3}
  Ops <- OpsA
  W = 2
  MaxNow = 5
  Fixed = FALSE
INIT Init
NEXT Next
VIEW SView
INVARIANTS FlagSafe MirrorSafe
CHECK_DEADLOCK FALSE
