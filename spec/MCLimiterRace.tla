---------------------------- MODULE MCLimiterRace ----------------------------
(* LimiterRace (M) composed with LimiterObs (P): every interleaving of whole *)
(* Allows with one parked caller and a parked cleanup pass; emits every      *)
(* transition for the gate-scheduled replay on the real limiter.             *)
EXTENDS LimiterRace, Json
VARIABLES obs, act
O == INSTANCE LimiterObs
mcvars == <<vars, obs, act>>

MCInit == Init /\ obs = O!ObsInit(cf) /\ act = [a |-> "init"]

\* feed the observer: the one client is "1"; ticks advance its clock; an Allow result is a verdict at the current instant
Feed(o, e) == CASE e.ev = "allow" -> O!ObsAllow(o, 1, e.res, e.res)
                [] e.ev \in {"tick", "tickpark"} -> O!ObsTick(o, 1)
                [] OTHER -> O!Q(o)
MCNext == /\ Next
          /\ act' = [a |-> evs'[1].a]
          /\ obs' = Feed(obs, evs'[1])
GenNext == /\ Next /\ act' = [a |-> evs'[1].a] /\ UNCHANGED obs

NoViolation == obs.viol = <<>>
Bound == obs.now <= 9 /\ TLCGet("level") <= 14

CfgRace == {[max |-> 1, r |-> 1], [max |-> 2, r |-> 1], [max |-> 1, r |-> 2], [max |-> 2, r |-> 3]}
SView == <<cf, cur, ng, tok, since, dead, touched, ref, cpark>>
View == <<SView, obs>>
GenView == SView
EmitInit == act.a # "init" \/ PrintT("IN " \o ToJson([s |-> ToString(SView), cf |-> cf]))
Emit == PrintT("TR " \o ToJson([from |-> ToString(SView), act |-> act', to |-> ToString(SView')]))
=============================================================================
