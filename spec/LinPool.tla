------------------------------- MODULE LinPool -------------------------------
(* C20, concurrent clause -- linearizability of the WebSocket connection pool. *)
(* Actors run put / get / put-back / close / cleanup / shutdown in real         *)
(* parallel on one real WebSocketPool (harness/poolconc, mock connections with  *)
(* a closed flag); every operation is recorded with invocation and return       *)
(* instants from one atomic counter.  A history ends with a Shutdown issued     *)
(* after everything else returned, and with the closed flag of every            *)
(* connection.  TLC searches for an order of the operations that respects       *)
(* real-time precedence and is a run of the sequential pool below ending in a   *)
(* state whose closed connections are exactly the ones found closed.            *)
(*                                                                              *)
(* Two regimes.  "strict": idle_timeout is an hour, nothing is ever stale, the  *)
(* pool is deterministic.  "stale": the pool is primed with connections that    *)
(* are certainly older than idle_timeout (the harness slept past it); Get must  *)
(* never return those and cleanup must close them; connections put during the   *)
(* run are fresh, but a descheduled goroutine may see one as stale, so the      *)
(* sequential pool MAY discard them wherever the code looks at ages.            *)
EXTENDS Integers, Sequences, FiniteSets, TLC

OpNames == {"P", "G", "R", "X", "C", "S"}   \* put new, get, put back what I hold, close what I hold, cleanup, shutdown
Pairs(A) == {<<a, b>> : a \in A, b \in A}
Triples(A) == {<<a, b, c>> : a \in A, b \in A, c \in A}
Case(rg, m, as) == [regime |-> rg, maxidle |-> m, actors |-> as]
\* (operators with a parameter: TLC evaluates zero-arity constant definitions eagerly in every run, also in the observer)
CasesQuick(u) == {Case(rg, m, <<x, y>>) : rg \in {"strict", "stale"}, m \in {1, 2}, x \in Pairs(OpNames), y \in Pairs(OpNames)}
CasesThorough(u) ==
  {Case(rg, m, <<x, y>>) : rg \in {"strict", "stale"}, m \in {1, 2, 3}, x \in Triples(OpNames \ {"X"}), y \in Triples(OpNames \ {"X"})}
  \cup {Case(rg, 2, <<x, y, z>>) : rg \in {"strict", "stale"}, x \in Pairs(OpNames), y \in Pairs(OpNames \ {"X"}), z \in Pairs({"P", "G", "C", "S"})}

Upd(f, k, v) == [x \in (DOMAIN f) \cup {k} |-> IF x = k THEN v ELSE f[x]]

\* sequential pool: st.c = function connection -> "idle" | "held" | "closed"; st.cs = certainly stale connections
Idle(st) == {c \in DOMAIN st.c : st.c[c] = "idle"}
Closed(st) == {c \in DOMAIN st.c : st.c[c] = "closed"}
CloseAll(st, D) == [st EXCEPT !.c = [c \in DOMAIN st.c |-> IF c \in D THEN "closed" ELSE st.c[c]]]
\* what a look at the ages may discard / must discard
MayDiscard(st) == IF st.lenient THEN Idle(st) ELSE Idle(st) \cap st.cs
MustDiscard(st) == Idle(st) \cap st.cs

Init(o) == [c |-> [x \in {o.primed[i] : i \in DOMAIN o.primed} |-> "idle"],
            cs |-> IF o.regime = "stale" THEN {o.primed[i] : i \in DOMAIN o.primed} ELSE {},
            lenient |-> o.regime = "stale", maxidle |-> o.maxidle]

\* the set of states the sequential pool can be in after op, given the recorded result
Next(st, op) ==
  CASE op.k = "put" ->
         IF op.kept
         THEN IF Cardinality(Idle(st)) < st.maxidle THEN {[st EXCEPT !.c = Upd(@, op.c, "idle")]} ELSE {}
         ELSE IF Cardinality(Idle(st)) >= st.maxidle THEN {[st EXCEPT !.c = Upd(@, op.c, "closed")]} ELSE {}
    [] op.k = "get" ->
         IF op.c = 0
         THEN \* nil: everything idle was discarded as stale
              IF Idle(st) \subseteq MayDiscard(st) THEN {CloseAll(st, Idle(st))} ELSE {}
         ELSE IF op.c \in Idle(st) /\ op.c \notin st.cs
              THEN {[CloseAll(st, D) EXCEPT !.c[op.c] = "held"] : D \in SUBSET (MayDiscard(st) \ {op.c})}
              ELSE {}
    [] op.k = "close" -> {[st EXCEPT !.c = Upd(@, op.c, "closed")]}
    [] op.k = "cleanup" -> {CloseAll(st, D) : D \in {X \in SUBSET MayDiscard(st) : MustDiscard(st) \subseteq X}}
    [] op.k = "shutdown" -> {CloseAll(st, Idle(st))}
    [] op.k = "nop" -> {st}

Minimal(ops, open, i) == \A j \in open : j = i \/ ~(ops[j].ret < ops[i].inv)

RECURSIVE LinFrom(_, _, _, _)
LinFrom(ops, open, st, closedAtEnd) ==
  IF open = {} THEN Closed(st) = closedAtEnd
  ELSE \E i \in open : /\ Minimal(ops, open, i)
                       /\ \E s2 \in Next(st, ops[i]) : LinFrom(ops, open \ {i}, s2, closedAtEnd)

Linearizable(o) == LinFrom(o.ops, DOMAIN o.ops, Init(o), {o.closed[i] : i \in DOMAIN o.closed})

\* a readable fact next to the search result (a double hand-out has no such simple form: whether two Gets of one
\* connection are legal depends on where a put-back can be ordered, which is exactly what the search decides)
Gets(o) == {i \in DOMAIN o.ops : o.ops[i].k = "get" /\ o.ops[i].c # 0}
StaleReturned(o) == o.regime = "stale" /\ \E i \in Gets(o) : o.ops[i].c \in {o.primed[k] : k \in DOMAIN o.primed}

Check(c, o) ==
  IF o.stuck THEN <<"HistoryStuck">>      \* an operation never returned: nothing else can be said about the history
  ELSE
  (IF StaleReturned(o) THEN <<"NoStaleReturn_concurrent">> ELSE <<>>)
  \o (IF ~Linearizable(o) THEN <<"PoolNotLinearizable">> ELSE <<>>)
=============================================================================
