-------------------------------- MODULE Faults --------------------------------
(* C03 -- fault containment.  A case is a sequence of faulted exchanges        *)
(* followed, after the configured recovery times, by a plain probe request.    *)
(*   every faulted request ends (response or closed connection) within the     *)
(*     configured backend/server timeouts plus slack;                          *)
(*   the probe is answered 200 by a backend;                                   *)
(*   in-flight gauges are back to zero and nothing is wedged.                  *)
EXTENDS Integers, Sequences, FiniteSets, TLC

Alphabet == {"refuse", "hang_headers", "reset_after_headers", "short_body", "garbage", "s500", "slow_body",
             "client_abort_up", "client_abort_down"}
Features == [cb : BOOLEAN, rl : BOOLEAN, passive : BOOLEAN, plugins : BOOLEAN]
Strategies == {"round_robin", "least_connections", "weighted_round_robin", "ip_hash", "ip_hash_consistent"}

SeqsUpTo(S, n) == UNION {[1..k -> S] : k \in 1..n}
Cases(n, strategies, feats) == [faults : SeqsUpTo(Alphabet, n), strategy : strategies, f : feats]

BoundMs == 5500     \* backend_read 1 s + server write 2 s + dial/transport slack

\* o = [reqs : Seq([ended, ms, outcome]), probe : status, gauges : BOOLEAN (all zero), second : status of a 2nd probe]
Check(c, o) ==
  (IF \E i \in DOMAIN o.reqs : ~o.reqs[i].ended THEN <<"RequestNeverEnded">> ELSE <<>>)
  \o (IF \E i \in DOMAIN o.reqs : o.reqs[i].ended /\ o.reqs[i].ms > BoundMs THEN <<"RequestTooSlow">> ELSE <<>>)
  \o (IF o.probe # 200 THEN <<"ProbeAfterFaultsFailed">> ELSE <<>>)
  \o (IF o.second # 200 THEN <<"SecondProbeFailed">> ELSE <<>>)
  \o (IF ~o.gauges THEN <<"GaugeNotZero">> ELSE <<>>)
  \o (IF Len(o.reqs) # Len(c.faults) THEN <<"HarnessIncomplete">> ELSE <<>>)
=============================================================================
