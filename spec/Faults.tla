-------------------------------- MODULE Faults --------------------------------
(* C03 -- fault containment.  A case is a sequence of faulted exchanges        *)
(* followed, after the configured recovery times, by a plain probe request.    *)
(*   every faulted request ends (response or closed connection) within the     *)
(*     configured backend/server timeouts plus slack;                          *)
(*   the probe is answered 200 by a backend;                                   *)
(*   in-flight gauges are back to zero and nothing is wedged.                  *)
EXTENDS Integers, Sequences, FiniteSets, TLC

\* stall_body: headers and the first bytes of the body, then silence (the backend keeps the connection open for 9 s)
\* stall_body_upgrade: the same stall, the request carries "Connection: Upgrade / Upgrade: x" and the backend answers 200 anyway
Alphabet == {"refuse", "hang_headers", "reset_after_headers", "short_body", "garbage", "s500", "slow_body", "stall_body", "stall_body_upgrade",
             "client_abort_up", "client_abort_down"}
Features == [cb : BOOLEAN, rl : BOOLEAN, passive : BOOLEAN, plugins : BOOLEAN]
Strategies == {"round_robin", "least_connections", "weighted_round_robin", "ip_hash", "ip_hash_consistent"}

SeqsUpTo(S, n) == UNION {[1..k -> S] : k \in 1..n}
\* trip / eject with two faults, wait out the breaker timeout and the unhealthy window, then a fault
\* on the half-open trial / freshly readmitted backend ("wait" is a pause of 1.2 s, not a request)
Recovery == {<<a, a, "wait", b>> : a \in {"s500", "refuse", "reset_after_headers"}, b \in Alphabet}
            \cup {<<a, a, "wait", b, "wait", b>> : a \in {"s500"}, b \in {"s500", "reset_after_headers", "short_body", "client_abort_down"}}
\* solo cases run one at a time, before everything else: a faulted exchange immediately followed by a healthy one
\* ("none") whose status AND body are checked -- nothing of one exchange may leak into the next
Leak == {<<a, "none">> : a \in {"short_body", "reset_after_headers", "client_abort_down", "slow_body", "s500"}}
         \cup {<<a, a, "none", "none">> : a \in {"short_body", "client_abort_down"}}
SoloCases == [faults : Leak, strategy : {"round_robin"}, solo : {TRUE}, dead : {"none"},
              f : {[cb |-> FALSE, rl |-> FALSE, passive |-> FALSE, plugins |-> p] : p \in BOOLEAN}]
\* dead: ACTIVE health checks are on (every 2 s, 1 s timeout) and a third configured backend is down the whole time:
\* it refuses connections / accepts and never answers / answers garbage, so every probe of it fails below HTTP.
\* These cases run against the real cmd/helios process: a crash of the proxy is an observation like any other
\* (the harness waits 1.5 s first, so the probes have ejected the dead backend before the first request)
ActiveCases == [faults : {<<"none">>, <<"s500", "none">>, <<"refuse", "none">>, <<"hang_headers", "none">>}, strategy : {"round_robin", "least_connections"},
                solo : {FALSE}, dead : {"refuse", "hang", "garbage"},
                f : {[cb |-> FALSE, rl |-> FALSE, passive |-> p, plugins |-> FALSE] : p \in BOOLEAN}]
Cases(n, strategies, feats) == [faults : SeqsUpTo(Alphabet, n) \cup Recovery, strategy : strategies, f : feats, solo : {FALSE}, dead : {"none"}]
                                \cup SoloCases \cup ActiveCases

BoundMs == 5500     \* backend_read 1 s + server write 2 s + dial/transport slack

\* o = [reqs : Seq([ended, ms, outcome]), probe : status, gauges : BOOLEAN (all zero), second : status of a 2nd probe]
\* died: the proxy process ended by itself (process-level cases only)
Check(c, o) ==
  IF o.died THEN <<"HeliosDied">> ELSE
  (IF \E i \in DOMAIN o.reqs : ~o.reqs[i].ended THEN <<"RequestNeverEnded">> ELSE <<>>)
  \o (IF \E i \in DOMAIN o.reqs : o.reqs[i].ended /\ o.reqs[i].ms > BoundMs THEN <<"RequestTooSlow">> ELSE <<>>)
  \o (IF o.probe # 200 THEN <<"ProbeAfterFaultsFailed">> ELSE <<>>)
  \o (IF \E i \in DOMAIN o.reqs : i <= Len(c.faults) /\ c.faults[i] = "none" /\ o.reqs[i].outcome # "status-200"
      THEN <<"HealthyExchangeCorrupted">> ELSE <<>>)
  \o (IF o.second # 200 THEN <<"SecondProbeFailed">> ELSE <<>>)
  \o (IF ~o.gauges THEN <<"GaugeNotZero">> ELSE <<>>)
  \o (IF Len(o.reqs) # Cardinality({i \in DOMAIN c.faults : c.faults[i] # "wait"}) THEN <<"HarnessIncomplete">> ELSE <<>>)
=============================================================================
