--------------------------- MODULE ShutdownProofs ---------------------------
(* Unbounded complement to the TLC runs of Shutdown.tla: for EVERY number   *)
(* of backends, probe rounds and concurrent Stop calls, no health probe     *)
(* leaves the client after a Stop call has returned (a probe sent with a    *)
(* cancelled context never leaves), and once any Stop has returned the      *)
(* WebSocket pool is closed (C19: NoProbeAfterStop, PoolClosedAfterStop).   *)
(* Checked by the TLA+ proof system (tlapm), not by enumeration.            *)
EXTENDS Shutdown, TLAPS

Inv == /\ stopPc \in [Stops -> STRING]
       /\ cancelled \in BOOLEAN /\ poolOpen \in BOOLEAN /\ sentAfterStop \in BOOLEAN
       /\ ~sentAfterStop
       /\ \A s \in Stops : stopPc[s] # "idle" => cancelled
       /\ \A s \in Stops : stopPc[s] = "done" => ~poolOpen

THEOREM InitInv == Init => Inv
  BY DEF Init, Inv

THEOREM NextInv == Inv /\ [Next]_vars => Inv'
<1> SUFFICES ASSUME Inv, [Next]_vars PROVE Inv'
  OBVIOUS
<1>1. ASSUME TickFire \/ AddProbe \/ RoundDone \/ TickerSeesCancel PROVE Inv'
  BY <1>1 DEF TickFire, AddProbe, RoundDone, TickerSeesCancel, Inv
<1>2. ASSUME NEW i \in Nat, ProbeStart(i) PROVE Inv'
  BY <1>2 DEF ProbeStart, Inv
<1>3. ASSUME NEW i \in Nat, ProbeSend(i) PROVE Inv'
  <2>1. StopDone => cancelled
    BY DEF StopDone, Inv
  <2> QED
    BY <1>3, <2>1 DEF ProbeSend, Inv
<1>4. ASSUME NEW s \in Stops, StopCancel(s) PROVE Inv'
  BY <1>4 DEF StopCancel, Inv
<1>5. ASSUME NEW s \in Stops, StopWait(s) PROVE Inv'
  BY <1>5 DEF StopWait, Inv
<1>6. ASSUME NEW s \in Stops, StopPool(s) PROVE Inv'
  BY <1>6 DEF StopPool, Inv
<1>7. ASSUME UNCHANGED vars PROVE Inv'
  BY <1>7 DEF vars, Inv
<1> QED
  BY <1>1, <1>2, <1>3, <1>4, <1>5, <1>6, <1>7 DEF Next

THEOREM Safety == Spec => [](NoProbeAfterStop /\ PoolClosedAfterStop)
<1>1. Inv => NoProbeAfterStop /\ PoolClosedAfterStop
  BY DEF Inv, NoProbeAfterStop, PoolClosedAfterStop, StopDone
<1> QED
  BY InitInv, NextInv, <1>1, PTL DEF Spec
=============================================================================
