---------------------------- MODULE LimiterRace ----------------------------
(* Fine-grained mechanism model of one client's bucket in                   *)
(* internal/ratelimiter: Allow is lookup-or-create (a reference to a bucket *)
(* OBJECT) followed, after the scheduling point vgate("rl:lock"), by the    *)
(* critical section under the bucket's lock; the cleanup pass reaches       *)
(* vgate("rl:clean") before it locks a bucket it found in the map.  One     *)
(* slow caller and the cleanup pass can be parked at their gates while the  *)
(* main thread performs whole Allows; bucket objects are generations 1..G.  *)
(*                                                                          *)
(* Fixed = FALSE is the mechanism as it was: cleanup deletes the map entry  *)
(* of a stale bucket, and a caller that already holds a reference spends    *)
(* from the orphaned object while the next lookup creates a fresh full      *)
(* bucket -- more than max_tokens admitted at one instant (TLC: Burst).     *)
(* Fixed = TRUE: cleanup marks the object dead under its lock, and a caller *)
(* that finds its bucket dead starts over with the live one.                *)
EXTENDS Integers, Sequences, FiniteSets, TLC

CONSTANTS CfgSet, CA0, G, Fixed
VARIABLES cf, cur, ng, tok, since, dead, touched, ref, cpark, evs
vars == <<cf, cur, ng, tok, since, dead, touched, ref, cpark, evs>>

MaxT == cf.max
R == cf.r
CA == IF MaxT * R > CA0 THEN MaxT * R ELSE CA0
SCap == CA + 1
Gens == 1..G
Min(a, b) == IF a < b THEN a ELSE b

Init == /\ cf \in CfgSet
        /\ cur = 0 /\ ng = 1
        /\ tok = [g \in Gens |-> 0] /\ since = [g \in Gens |-> 0]
        /\ dead = [g \in Gens |-> FALSE] /\ touched = [g \in Gens |-> FALSE]
        /\ ref = 0 /\ cpark = 0 /\ evs = <<>>

\* lookup-or-create: [g, s] the generation obtained and the state after a possible creation
Lookup == IF cur # 0 THEN [g |-> cur, cur |-> cur, ng |-> ng, tok |-> tok, since |-> since]
          ELSE [g |-> ng, cur |-> ng, ng |-> ng + 1, tok |-> [tok EXCEPT ![ng] = MaxT], since |-> [since EXCEPT ![ng] = 0]]

\* the critical section of Allow on object g in state s = [tok, since, touched]
Spend(s, g) ==
  LET add == s.since[g] \div R
      t1 == IF add > 0 THEN Min(MaxT, s.tok[g] + add) ELSE s.tok[g]
      s1 == IF add > 0 THEN 0 ELSE s.since[g]
      ok == t1 > 0
  IN [ok |-> ok, tok |-> [s.tok EXCEPT ![g] = IF ok THEN t1 - 1 ELSE t1], since |-> [s.since EXCEPT ![g] = s1],
      touched |-> [s.touched EXCEPT ![g] = @ \/ add > 0]]

\* a whole Allow by the main thread
Allow ==
  /\ ng <= G \/ cur # 0
  /\ LET l == Lookup
         r == Spend([tok |-> l.tok, since |-> l.since, touched |-> touched], l.g)
     IN /\ cur' = l.cur /\ ng' = l.ng /\ tok' = r.tok /\ since' = r.since /\ touched' = r.touched
        /\ evs' = <<[ev |-> "allow", a |-> "allow", res |-> r.ok]>>
  /\ UNCHANGED <<cf, dead, ref, cpark>>

\* the slow caller: lookup, then parked at rl:lock
SlowGet ==
  /\ ref = 0 /\ (ng <= G \/ cur # 0)
  /\ LET l == Lookup IN /\ ref' = l.g /\ cur' = l.cur /\ ng' = l.ng /\ tok' = l.tok /\ since' = l.since
  /\ evs' = <<[ev |-> "get", a |-> "get"]>>
  /\ UNCHANGED <<cf, dead, touched, cpark>>
\* ... released: the critical section on the object it holds (Fixed: starts over if that object is dead)
SlowSpend ==
  /\ ref # 0
  /\ IF Fixed /\ dead[ref]
     THEN /\ ng <= G \/ cur # 0
          /\ LET l == Lookup
                 r == Spend([tok |-> l.tok, since |-> l.since, touched |-> touched], l.g)
             IN /\ cur' = l.cur /\ ng' = l.ng /\ tok' = r.tok /\ since' = r.since /\ touched' = r.touched
                /\ evs' = <<[ev |-> "allow", a |-> "spend", res |-> r.ok]>>
     ELSE /\ LET r == Spend([tok |-> tok, since |-> since, touched |-> touched], ref)
             IN /\ tok' = r.tok /\ since' = r.since /\ touched' = r.touched
                /\ evs' = <<[ev |-> "allow", a |-> "spend", res |-> r.ok]>>
          /\ UNCHANGED <<cur, ng>>
  /\ ref' = 0
  /\ UNCHANGED <<cf, dead, cpark>>

Age(s) == [g \in Gens |-> Min(s[g] + 1, SCap)]
Stale(g) == since[g] >= CA
\* one tick; the cleanup pass fires half-way through it and is not held up
Tick ==
  /\ cpark = 0
  /\ IF cur # 0 /\ Stale(cur)
     THEN /\ cur' = 0 /\ dead' = [dead EXCEPT ![cur] = TRUE]
     ELSE UNCHANGED <<cur, dead>>
  /\ since' = Age(since)
  /\ evs' = <<[ev |-> "tick", a |-> "tick"]>>
  /\ UNCHANGED <<cf, ng, tok, touched, ref, cpark>>
\* one tick during which the cleanup pass is parked at rl:clean, before it locks the bucket it found
TickPark ==
  /\ cpark = 0 /\ cur # 0
  /\ cpark' = cur
  /\ touched' = [touched EXCEPT ![cur] = FALSE]
  /\ since' = Age(since)
  /\ evs' = <<[ev |-> "tickpark", a |-> "tickpark"]>>
  /\ UNCHANGED <<cf, cur, ng, tok, dead, ref>>
\* ... released: stale iff it was stale when the pass started and nobody refilled it since
CleanResume ==
  /\ cpark # 0
  /\ IF since[cpark] >= CA + 1 /\ ~touched[cpark] /\ cur = cpark
     THEN /\ cur' = 0 /\ dead' = [dead EXCEPT ![cpark] = TRUE]
     ELSE UNCHANGED <<cur, dead>>
  /\ cpark' = 0
  /\ evs' = <<[ev |-> "cleanresume", a |-> "cleanresume"]>>
  /\ UNCHANGED <<cf, ng, tok, since, touched, ref>>

Next == /\ (Allow \/ SlowGet \/ SlowSpend \/ Tick \/ TickPark \/ CleanResume)
        /\ UNCHANGED cf
Spec == Init /\ [][Next]_vars
=============================================================================
