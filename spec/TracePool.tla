------------------------------ MODULE TracePool ------------------------------
(* Conformance of the real balancer to the mechanism model M (Pool.tla),    *)
(* code -> specification.  The trace is what harness/lbsim recorded while   *)
(* replaying the model's walks: every client request must be the model's    *)
(* Req(c, o) and reach exactly the backend the model selects (round_robin,  *)
(* weighted_round_robin, least_connections: rotation position, smooth       *)
(* weights and in-flight counts are the model's); under the two hash        *)
(* strategies the model abstracts the hash function, so any backend the     *)
(* model holds healthy at that moment explains the dispatch.  After every   *)
(* reply and admin operation the /v1/backends listing (order and health     *)
(* flags) must be the model's order and flag.  Ticks, marks, probe results, *)
(* add / remove / set_strategy are the model's actions of the same name.    *)
(* A step M cannot explain marks the segment diverged ("MDIV"); that is a   *)
(* statement about the model, never a property verdict.                     *)
EXTENDS Pool, Json, IOUtils

\* weight vectors and the (unused here) hash abstraction the plans' configurations name
W321 == [b \in 1..N |-> IF b = 1 THEN 3 ELSE IF b = 2 THEN 2 ELSE 1]
W111 == [b \in 1..N |-> 1]
W2101 == [b \in 1..N |-> IF b = 1 THEN 2 ELSE 1]
Hash2 == [c \in Clients |-> c * 5 + 1]

Tr == ndJsonDeserialize(IOEnv.TRACE_FILE)
VARIABLES l, mode, seg, note, held
E == Tr[l]

Name(b) == "b" \o ToString(b)
IdOf(n) == IF \E b \in B : Name(b) = n THEN CHOOSE b \in B : Name(b) = n ELSE 0
ClientOf(a) == IF \E c \in Clients : ("10.0.0." \o ToString(c)) = a THEN CHOOSE c \in Clients : ("10.0.0." \o ToString(c)) = a ELSE 0
OutcomeOf(p) == CASE p = "ok" -> "ok" [] p = "s500" -> "fail" [] p = "abort" -> "abort" [] p = "hold" -> "hold" [] p = "cancel" -> "cancel" [] OTHER -> "?"
Hashing == strat \in {"ip_hash", "ip_hash_consistent"}

InitVals == /\ order = [i \in 1..N0 |-> i]
            /\ flag = [b \in B |-> TRUE] /\ age = [b \in B |-> 0] /\ pfail = [b \in B |-> 0]
            /\ rr = 0 /\ cw = [b \in B |-> 0] /\ infl = [b \in B |-> 0]
            /\ probe = [b \in B |-> "ok"] /\ mirror = [b \in B |-> TRUE] /\ evs = <<>>
TraceInit == /\ l = 1 /\ mode = "skip" /\ seg = "none" /\ note = <<>> /\ held = <<>>
             /\ strat = (CHOOSE s \in Strategies : TRUE)
             /\ InitVals

\* a segment is followed when it is one of this plan's own configurations (not the alias / guards replays)
Followed(c) == /\ c.strategy \in Strategies /\ Len(c.backends) = N0 /\ ~c.guards
               /\ \A i \in 1..N0 : c.backends[i].name = Name(i) /\ c.backends[i].w = Weight[i]
               /\ c.passive.on = PassiveOn /\ c.active.on = ActiveOn
               /\ (PassiveOn => c.passive.thr = Thr) /\ c.passive.win = Win
TReset == /\ E.ev = "cfg"
          /\ strat' = IF E.cfg.strategy \in Strategies THEN E.cfg.strategy ELSE strat
          /\ order' = [i \in 1..N0 |-> i]
          /\ flag' = [b \in B |-> TRUE] /\ age' = [b \in B |-> 0] /\ pfail' = [b \in B |-> 0]
          /\ rr' = 0 /\ cw' = [b \in B |-> 0] /\ infl' = [b \in B |-> 0]
          /\ probe' = [b \in B |-> "ok"] /\ mirror' = [b \in B |-> TRUE] /\ evs' = <<>>
          /\ mode' = IF Followed(E.cfg) THEN "ok" ELSE "skip"
          /\ seg' = E.id /\ note' = <<>> /\ held' = <<>> /\ l' = l + 1

Keep == UNCHANGED <<mode, seg>> /\ note' = <<>> /\ l' = l + 1
Upd(f, k, v) == [x \in (DOMAIN f) \cup {k} |-> IF x = k THEN v ELSE f[x]]
Del(f, k) == [x \in (DOMAIN f) \ {k} |-> f[x]]

\* the dispatch the harness recorded for this request (0 = it reached no backend)
Dispatched == IF l < Len(Tr) /\ Tr[l + 1].ev = "dispatch" THEN IdOf(Tr[l + 1].b) ELSE 0

TReq ==
  /\ E.ev = "req" /\ mode = "ok"
  /\ LET c == ClientOf(E.client) o == OutcomeOf(E.plan) IN
     /\ c # 0 /\ o # "?"
     /\ IF Hashing
        THEN LET s == Sweep(S0, 1) IN
             /\ IF Dispatched = 0 THEN Len(Healthy(s)) = 0 ELSE Dispatched \in SeqToSet(Healthy(s))
             /\ ReqWith(c, o, [b |-> Dispatched, s |-> s])
        ELSE /\ Req(c, o)
             /\ (IF Len(evs') = 3 THEN evs'[2].b ELSE 0) = Dispatched
  /\ UNCHANGED held /\ Keep

ListingMatches(h, ord, fl) == \A i \in DOMAIN ord : Name(ord[i]) \in DOMAIN h /\ h[Name(ord[i])] = fl[ord[i]]

\* a held exchange: remember which backend holds request id
THeld == /\ E.ev = "held" /\ mode = "ok"
         /\ held' = Upd(held, E.id, IdOf(Tr[l - 1].b))
         /\ UNCHANGED vars /\ Keep
\* the reply of a held exchange is the model's Release; any other reply only shows the listing
TReply ==
  /\ E.ev = "reply" /\ mode = "ok"
  /\ IF E.id \in DOMAIN held
     THEN /\ Release(held[E.id]) /\ held' = Del(held, E.id)
          /\ ListingMatches(E.h, order', flag')
     ELSE /\ UNCHANGED vars /\ UNCHANGED held
          /\ ListingMatches(E.h, order, flag)
  /\ Keep

TTick == /\ E.ev = "tick" /\ mode = "ok" /\ E.n = 1
         /\ Tick /\ UNCHANGED held /\ Keep
TMark == /\ E.ev = "mark" /\ mode = "ok"
         /\ Mark(IdOf(E.b)) /\ UNCHANGED held /\ Keep
TSetProbe == /\ E.ev = "setprobe" /\ mode = "ok"
             /\ IF probe[IdOf(E.b)] # E.r THEN SetProbe(IdOf(E.b), E.r) ELSE UNCHANGED vars
             /\ UNCHANGED held /\ Keep

ItemsMatch(items, ord, fl) == /\ Len(items) = Len(ord)
                              /\ \A i \in DOMAIN ord : items[i].name = Name(ord[i]) /\ items[i].healthy = fl[ord[i]]
TAdmin ==
  /\ E.ev = "admin" /\ mode = "ok"
  /\ LET b == IdOf(E.name) IN
     CASE E.op = "add" /\ E.status = 201 -> b # 0 /\ Add(b)
       [] E.op = "remove" /\ E.status = 200 /\ b \in SeqToSet(order) -> infl[b] = 0 /\ RemoveEff(b)
       [] E.op = "strategy" /\ E.status = 200 /\ E.s # strat -> SetStrategy(E.s)
       [] OTHER -> UNCHANGED vars
  /\ ItemsMatch(E.items, order', flag')
  /\ UNCHANGED held /\ Keep

\* The model counts in-flight exchanges per backend NAME and never removes a backend that has one (a bound of the
\* generator); when the replay does -- only where the abstract hash sent a held exchange elsewhere than the real one --
\* the rest of the segment is outside what the model describes and is not followed (not a divergence)
TLeave == /\ E.ev = "admin" /\ mode = "ok" /\ E.op = "remove" /\ E.status = 200
          /\ IdOf(E.name) \in SeqToSet(order) /\ infl[IdOf(E.name)] > 0
          /\ UNCHANGED vars /\ UNCHANGED held /\ mode' = "skip" /\ UNCHANGED seg /\ note' = <<>> /\ l' = l + 1

Conform == TLeave \/ TReq \/ THeld \/ TReply \/ TTick \/ TMark \/ TSetProbe \/ TAdmin
Stepping == E.ev \in {"req", "held", "reply", "tick", "mark", "setprobe", "admin"}

TDiverge ==
  /\ mode = "ok" /\ Stepping
  /\ ~ENABLED Conform
  /\ UNCHANGED vars /\ UNCHANGED held
  /\ mode' = "div" /\ UNCHANGED seg /\ l' = l + 1
  /\ note' = [line |-> l, seg |-> seg, ev |-> E.ev,
              model |-> [strat |-> strat, order |-> order, flag |-> flag, age |-> age, rr |-> rr, cw |-> cw, infl |-> infl, pfail |-> pfail],
              expected |-> IF E.ev = "req" /\ ~Hashing /\ ClientOf(E.client) # 0 THEN FindBackend(ClientOf(E.client)).b ELSE -1,
              logged |-> IF E.ev = "req" THEN Dispatched ELSE -1]

Other == /\ \/ (mode = "ok" /\ ~Stepping /\ E.ev # "cfg")
            \/ (mode # "ok" /\ E.ev # "cfg")
         /\ UNCHANGED vars /\ UNCHANGED held /\ Keep

TraceNext == l <= Len(Tr) /\ (TReset \/ Conform \/ TDiverge \/ Other)
Report == note = <<>> \/ PrintT("MDIV " \o ToJson(note))
Consumed == TLCGet("stats").diameter - 1 = Len(Tr)
=============================================================================
