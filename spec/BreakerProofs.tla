--------------------------- MODULE BreakerProofs ---------------------------
(* Unbounded complement to the TLC runs of MCBreaker (2 and 3 callers, 108  *)
(* configurations): for EVERY set of callers -- any number of concurrent    *)
(* requests -- and EVERY configuration, the number of trials admitted in a  *)
(* half-open window of Breaker.tla never exceeds max_requests.  This is the *)
(* counting core of C07's "at most max_requests trial requests are admitted *)
(* in total - even when they arrive concurrently"; it holds because Count   *)
(* checks the budget and counts the trial in ONE critical section.          *)
(* Checked by the TLA+ proof system (tlapm), not by enumeration.            *)
EXTENDS Breaker, TLAPS

ASSUME CfgAssump == CfgSet \subseteq [ft : Nat, st : Nat, mr : Nat, iv : Nat, to : Nat]

Inv == /\ cf \in CfgSet
       /\ trials \in Nat
       /\ trials <= cf.mr

THEOREM InitInv == Init => Inv
  BY CfgAssump DEF Init, Inv

THEOREM NextInv == Inv /\ [Next]_vars => Inv'
<1> SUFFICES ASSUME Inv, [Next]_vars PROVE Inv'
  OBVIOUS
<1> cf \in [ft : Nat, st : Nat, mr : Nat, iv : Nat, to : Nat]
  BY CfgAssump DEF Inv
<1>0. ASSUME UNCHANGED <<cf, trials>> PROVE Inv'
  BY <1>0 DEF Inv
<1>1. ASSUME NEW c \in Callers, NEW o \in Outcomes, Call(c, o), UNCHANGED cf PROVE Inv'
  BY <1>1, <1>0 DEF Call, bvars
<1>2. ASSUME NEW c \in Callers, Read(c), UNCHANGED cf PROVE Inv'
  BY <1>2, <1>0 DEF Read, bvars
<1>3. ASSUME NEW c \in Callers, Reset(c), UNCHANGED cf PROVE Inv'
  BY <1>3, <1>0 DEF Reset
<1>4. ASSUME NEW c \in Callers, ToHalf(c), UNCHANGED cf PROVE Inv'
  <2>1. trials' = 0 \/ trials' = trials
    BY <1>4 DEF ToHalf
  <2> QED
    BY <1>4, <2>1 DEF Inv
<1>5. ASSUME NEW c \in Callers, Count(c), UNCHANGED cf PROVE Inv'
  <2>1. trials' = trials \/ (trials' = trials + 1 /\ ~(trials >= MR))
    BY <1>5 DEF Count
  <2> QED
    BY <1>5, <2>1 DEF Inv, MR
<1>6. ASSUME NEW c \in Callers, Run(c), UNCHANGED cf PROVE Inv'
  BY <1>6, <1>0 DEF Run, bvars
<1>7. ASSUME NEW c \in Callers, After(c), UNCHANGED cf PROVE Inv'
  BY <1>7, <1>0 DEF After
<1>8. ASSUME Tick, UNCHANGED cf PROVE Inv'
  BY <1>8, <1>0 DEF Tick
<1>9. ASSUME UNCHANGED vars PROVE Inv'
  BY <1>9, <1>0 DEF vars
<1> QED
  BY <1>1, <1>2, <1>3, <1>4, <1>5, <1>6, <1>7, <1>8, <1>9 DEF Next, Step

TrialBudget == trials <= MR
THEOREM Safety == Spec => []TrialBudget
<1>1. Inv => TrialBudget
  BY DEF Inv, TrialBudget, MR
<1> QED
  BY InitInv, NextInv, <1>1, PTL DEF Spec

(* C07, "while it is open and timeout has not elapsed every request is       *)
(* rejected": no caller passes the admission section (count -> run) while   *)
(* the breaker is open inside its timeout -- for any number of callers, in  *)
(* every interleaving (a caller that read "closed" or "half-open" earlier   *)
(* and arrives after the breaker tripped again is turned away too).         *)
OpenBlocks == \A c \in Callers : (pc[c] = "count" /\ pc'[c] = "run") => ~(state = "open" /\ openAge <= TO)

PcType == pc \in [Callers -> STRING] /\ state \in {"closed", "open", "half"}
THEOREM PcInit == Init => PcType
  BY DEF Init, PcType
THEOREM PcNext == PcType /\ [Next]_vars => PcType'
<1> SUFFICES ASSUME PcType, [Next]_vars PROVE PcType'
  OBVIOUS
<1>1. ASSUME NEW c \in Callers, NEW o \in Outcomes, Call(c, o) PROVE PcType'
  BY <1>1 DEF Call, PcType, bvars
<1>2. ASSUME NEW c \in Callers, Step(c) PROVE PcType'
  <2>1. ASSUME Read(c) PROVE PcType'
    <3>1. (\E v \in STRING : pc' = [pc EXCEPT ![c] = v]) /\ state' = state
      BY <2>1 DEF Read, PcType, bvars
    <3> QED
      BY <3>1 DEF PcType
  <2>2. ASSUME Reset(c) PROVE PcType'
    BY <2>2 DEF Reset, PcType
  <2>3. ASSUME ToHalf(c) PROVE PcType'
    <3>1. (\E v \in STRING : pc' = [pc EXCEPT ![c] = v]) /\ (state' = state \/ state' = "half")
      BY <2>3 DEF ToHalf
    <3> QED
      BY <3>1 DEF PcType
  <2>4. ASSUME Count(c) PROVE PcType'
    <3>1. (\E v \in STRING : pc' = [pc EXCEPT ![c] = v]) /\ state' = state
      BY <2>4 DEF Count
    <3> QED
      BY <3>1 DEF PcType
  <2>5. ASSUME Run(c) PROVE PcType'
    BY <2>5 DEF Run, PcType, bvars
  <2>6. ASSUME After(c) PROVE PcType'
    <3>1. (\E v \in STRING : pc' = [pc EXCEPT ![c] = v]) /\ state' \in {"closed", "open", state}
      BY <2>6 DEF After
    <3> QED
      BY <3>1 DEF PcType
  <2> QED
    BY <1>2, <2>1, <2>2, <2>3, <2>4, <2>5, <2>6 DEF Step
<1>3. ASSUME Tick PROVE PcType'
  BY <1>3 DEF Tick, PcType
<1>4. ASSUME UNCHANGED vars PROVE PcType'
  BY <1>4 DEF vars, PcType
<1> QED
  BY <1>1, <1>2, <1>3, <1>4 DEF Next

THEOREM StepOpenBlocks == PcType /\ [Next]_vars => OpenBlocks
<1> SUFFICES ASSUME PcType, [Next]_vars, NEW c \in Callers, pc[c] = "count", pc'[c] = "run"
             PROVE ~(state = "open" /\ openAge <= TO)
  BY DEF OpenBlocks
<1>1. ASSUME NEW d \in Callers, NEW o \in Outcomes, Call(d, o) PROVE FALSE
  BY <1>1 DEF Call, PcType
<1>2. ASSUME NEW d \in Callers, Read(d) \/ Reset(d) \/ ToHalf(d) \/ Run(d) \/ After(d) PROVE FALSE
  <2>0. ASSUME NEW v \in STRING, pc' = [pc EXCEPT ![d] = v], (d = c => (pc[d] # "count" \/ v # "run")) PROVE FALSE
    BY <2>0 DEF PcType
  <2>1. ASSUME Read(d) PROVE FALSE
    <3>1. pc[d] = "read" /\ \E v \in STRING : pc' = [pc EXCEPT ![d] = v]
      BY <2>1 DEF Read, PcType
    <3> QED
      BY <3>1, <2>0
  <2>2. ASSUME Reset(d) PROVE FALSE
    <3>1. pc[d] = "reset" /\ pc' = [pc EXCEPT ![d] = "count"]
      BY <2>2 DEF Reset
    <3> QED
      BY <3>1, <2>0
  <2>3. ASSUME ToHalf(d) PROVE FALSE
    <3>1. pc[d] = "tohalf" /\ \E v \in STRING : pc' = [pc EXCEPT ![d] = v]
      BY <2>3 DEF ToHalf
    <3> QED
      BY <3>1, <2>0
  <2>4. ASSUME Run(d) PROVE FALSE
    <3>1. pc[d] = "run" /\ pc' = [pc EXCEPT ![d] = "after"]
      BY <2>4 DEF Run
    <3> QED
      BY <3>1, <2>0
  <2>5. ASSUME After(d) PROVE FALSE
    <3>1. pc[d] = "after" /\ \E v \in STRING : pc' = [pc EXCEPT ![d] = v]
      BY <2>5 DEF After
    <3> QED
      BY <3>1, <2>0
  <2> QED
    BY <1>2, <2>1, <2>2, <2>3, <2>4, <2>5
<1>3. ASSUME NEW d \in Callers, Count(d) PROVE ~(state = "open" /\ openAge <= TO)
  <2>1. d = c
    BY <1>3 DEF Count, PcType
  <2> QED
    BY <1>3, <2>1 DEF Count, PcType
<1>4. ASSUME Tick PROVE FALSE
  BY <1>4 DEF Tick
<1>5. ASSUME UNCHANGED vars PROVE FALSE
  BY <1>5 DEF vars
<1> QED
  BY <1>1, <1>2, <1>3, <1>4, <1>5 DEF Next, Step

THEOREM OpenSafety == Spec => [][OpenBlocks]_vars
  BY PcInit, PcNext, StepOpenBlocks, PTL DEF Spec
=============================================================================
