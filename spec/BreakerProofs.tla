--------------------------- MODULE BreakerProofs ---------------------------
(* Unbounded complement to the TLC runs of MCBreaker (2 and 3 callers, 108  *)
(* configurations): for EVERY set of callers -- any number of concurrent    *)
(* requests -- and EVERY configuration, the number of trials admitted in a  *)
(* half-open window of Breaker.tla never exceeds max_requests.  This is the *)
(* counting core of C07's "at most max_requests trial requests are admitted *)
(* in total - even when they arrive concurrently"; it holds because Count   *)
(* checks the budget and counts the trial in ONE critical section.          *)
(* Checked by the TLA+ proof system (tlapm), not by enumeration.            *)
EXTENDS Breaker, TLAPS

ASSUME CfgAssump == CfgSet \subseteq [ft : Nat, st : Nat, mr : Nat, iv : Nat, to : Nat]

Inv == /\ cf \in CfgSet
       /\ trials \in Nat
       /\ trials <= cf.mr

THEOREM InitInv == Init => Inv
  BY CfgAssump DEF Init, Inv

THEOREM NextInv == Inv /\ [Next]_vars => Inv'
<1> SUFFICES ASSUME Inv, [Next]_vars PROVE Inv'
  OBVIOUS
<1> cf \in [ft : Nat, st : Nat, mr : Nat, iv : Nat, to : Nat]
  BY CfgAssump DEF Inv
<1>0. ASSUME UNCHANGED <<cf, trials>> PROVE Inv'
  BY <1>0 DEF Inv
<1>1. ASSUME NEW c \in Callers, NEW o \in Outcomes, Call(c, o), UNCHANGED cf PROVE Inv'
  BY <1>1, <1>0 DEF Call, bvars
<1>2. ASSUME NEW c \in Callers, Read(c), UNCHANGED cf PROVE Inv'
  BY <1>2, <1>0 DEF Read, bvars
<1>3. ASSUME NEW c \in Callers, Reset(c), UNCHANGED cf PROVE Inv'
  BY <1>3, <1>0 DEF Reset
<1>4. ASSUME NEW c \in Callers, ToHalf(c), UNCHANGED cf PROVE Inv'
  <2>1. trials' = 0 \/ trials' = trials
    BY <1>4 DEF ToHalf
  <2> QED
    BY <1>4, <2>1 DEF Inv
<1>5. ASSUME NEW c \in Callers, Count(c), UNCHANGED cf PROVE Inv'
  <2>1. trials' = trials \/ (trials' = trials + 1 /\ ~(trials >= MR))
    BY <1>5 DEF Count
  <2> QED
    BY <1>5, <2>1 DEF Inv, MR
<1>6. ASSUME NEW c \in Callers, Run(c), UNCHANGED cf PROVE Inv'
  BY <1>6, <1>0 DEF Run, bvars
<1>7. ASSUME NEW c \in Callers, After(c), UNCHANGED cf PROVE Inv'
  BY <1>7, <1>0 DEF After
<1>8. ASSUME Tick, UNCHANGED cf PROVE Inv'
  BY <1>8, <1>0 DEF Tick
<1>9. ASSUME UNCHANGED vars PROVE Inv'
  BY <1>9, <1>0 DEF vars
<1> QED
  BY <1>1, <1>2, <1>3, <1>4, <1>5, <1>6, <1>7, <1>8, <1>9 DEF Next, Step

TrialBudget == trials <= MR
THEOREM Safety == Spec => []TrialBudget
<1>1. Inv => TrialBudget
  BY DEF Inv, TrialBudget, MR
<1> QED
  BY InitInv, NextInv, <1>1, PTL DEF Spec
=============================================================================
