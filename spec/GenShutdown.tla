----------------------------- MODULE GenShutdown -----------------------------
EXTENDS ShutdownCases, Json
VARIABLE c
Init == c \in Cases \cup ProcCases
Next == UNCHANGED c
Emit == PrintT("CASE " \o ToJson(c))
=============================================================================
