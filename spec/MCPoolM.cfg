CONSTANTS
  N = 3
  N0 = 3
  Strategies = {"round_robin"}
  Weight <- W321
  Win = 1
  Thr = 2
  MaxHold = 1
  Clients = {1, 2}
  HashOf <- Hash2
  PassiveOn = TRUE
  ActiveOn = FALSE
  AdminOn = FALSE
  MarkOn = TRUE
  BadOpsOn = FALSE
  Outcomes = {"ok", "fail", "hold"}
INIT Init
NEXT Next
VIEW MView
INVARIANTS TypeOK MirrorSafe
PROPERTIES DispatchOutsideWindow NoSpurious503 LCMin PassiveOnlyAtThreshold
