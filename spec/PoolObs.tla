------------------------------ MODULE PoolObs ------------------------------
(* P -- property observers for the balancer-level properties, over the     *)
(* event vocabulary of harness/lbsim (DESIGN.md appendix B).  One observer *)
(* record, one operator per event; every violated clause is appended to    *)
(* `viol` tagged with the property it belongs to:                          *)
(*   C02  DispatchInWindow, Spurious503, DispatchToUnknown                 *)
(*   C04  SpuriousEjection, EjectAfterRun, ReportedHealthyInWindow,        *)
(*        NotReadmitted                                                    *)
(*   C05  RRWindow, WRRExact, WRRBound, LCMin                              *)
(*   C06  Affinity, MinimalRemap                                           *)
(*   C11  AddVisible, RemoveGone, FailedOpChanged, StrategyPreserves       *)
(*   C13  TotalCount, Partition, BackendTotals, Gauge                      *)
(* P derives windows, eligible sets, in-flight vectors, failure runs and   *)
(* counts only from the events and from the CONFIGURED window/threshold,   *)
(* never from values the implementation computed -- except where the       *)
(* statement leaves a choice (ejection after threshold non-consecutive     *)
(* failures), where it follows the public /v1/backends listing.            *)
EXTENDS Integers, Sequences, FiniteSets

Upd(f, k, v) == [x \in (DOMAIN f) \cup {k} |-> IF x = k THEN v ELSE f[x]]
Del(f, k) == [x \in (DOMAIN f) \ {k} |-> f[x]]
Range(s) == {s[i] : i \in DOMAIN s}
Abs(x) == IF x < 0 THEN 0 - x ELSE x
W1(w) == IF w < 1 THEN 1 ELSE w                 \* weights below 1 count as 1

\* disp0: dispatches counted before the name was (last) added again -- a re-added backend may publish its totals
\* from zero or carry the name's history on, the statement does not say which
NewB == [in |-> FALSE, age |-> 0, run |-> 0, cum |-> 0, infl |-> 0, disp |-> 0, disp0 |-> 0, idle |-> 0]

\* e.cfg = [strategy, backends: seq of [name, w], passive: [on, thr, win], active: [on, iv]]
ObsInit(c) ==
  [strategy |-> c.strategy, win |-> c.passive.win, thr |-> c.passive.thr, passive |-> c.passive.on,
   active |-> c.active.on,
   pool |-> [i \in DOMAIN c.backends |-> c.backends[i].name],
   w |-> [n \in {c.backends[i].name : i \in DOMAIN c.backends} |->
            W1(c.backends[CHOOSE i \in DOMAIN c.backends : c.backends[i].name = n].w)],
   b |-> [n \in {c.backends[i].name : i \in DOMAIN c.backends} |-> NewB],
   orderKnown |-> TRUE, fresh |-> TRUE, since |-> <<>>,
   cur |-> [id |-> -1, c |-> "", b |-> "", set |-> <<>>],
   pend |-> <<>>,                       \* request id -> backend, for exchanges still in flight
   amap |-> {},                         \* learned (client, eligible sequence) -> backend
   removed |-> {}, nreq |-> 0, nlimited |-> 0, nrejected |-> 0, nambig |-> 0,
   lastItems |-> <<>>, viol |-> <<>>]

V(p, clause, info) == [prop |-> p, clause |-> clause, info |-> info]
Q(o) == [o EXCEPT !.viol = <<>>]

InWindow(o, n) == o.b[n].in /\ o.b[n].age <= o.win
Eligible(o, n) == ~InWindow(o, n)
EligSeq(o) == SelectSeq(o.pool, LAMBDA n : Eligible(o, n))
EligW(o) == LET s == EligSeq(o) RECURSIVE Sum(_) Sum(i) == IF i > Len(s) THEN 0 ELSE o.w[s[i]] + Sum(i + 1) IN Sum(1)
TotalW(o) == LET s == o.pool RECURSIVE Sum(_) Sum(i) == IF i > Len(s) THEN 0 ELSE o.w[s[i]] + Sum(i + 1) IN Sum(1)

\* the eligible set changed (or may have): per-window distribution claims restart
Changed(o) == [o EXCEPT !.since = <<>>, !.fresh = FALSE,
                         !.b = [n \in DOMAIN o.b |-> [o.b[n] EXCEPT !.idle = 0]]]

\* passive ejection consumes the failure count; a mark / failed probe does not
EjectNow(o, n) == Changed([o EXCEPT !.b[n].in = TRUE, !.b[n].age = 0, !.b[n].run = 0, !.b[n].cum = 0])
EjectOther(o, n) == Changed([o EXCEPT !.b[n].in = TRUE, !.b[n].age = 0])

ObsTick(o, k) ==
  LET wasIn == {n \in Range(o.pool) : InWindow(o, n)}
      o1 == [Q(o) EXCEPT !.b = [n \in DOMAIN o.b |-> [o.b[n] EXCEPT !.age = IF @ + k > o.win + 1 THEN o.win + 1 ELSE @ + k]]]
      nowIn == {n \in Range(o1.pool) : InWindow(o1, n)}
  IN IF wasIn # nowIn THEN Changed(o1) ELSE o1

ObsReq(o, id, c) == [Q(o) EXCEPT !.nreq = @ + 1, !.cur = [id |-> id, c |-> c, b |-> "", set |-> EligSeq(o)]]

Count(s, x) == Cardinality({i \in DOMAIN s : s[i] = x})
LastK(s, k) == SubSeq(s, Len(s) - k + 1, Len(s))

\* request id reached backend n
ObsDispatch(o, id, n) ==
  IF n \notin DOMAIN o.b \/ n \notin Range(o.pool)
  THEN [Q(o) EXCEPT !.viol = <<V("C02", IF n \in o.removed THEN "RemoveGone" ELSE "DispatchToUnknown", n)>>]
  ELSE
  LET set == EligSeq(o)
      ne == Len(set)
      s1 == Append(o.since, n)
      c == o.cur.c
      lazy == o.b[n].in /\ o.b[n].age > o.win            \* window elapsed: this dispatch re-admits it
      o1 == [Q(o) EXCEPT !.b[n].infl = @ + 1, !.b[n].disp = @ + 1, !.b[n].in = FALSE, !.b[n].idle = 0,
                         !.since = s1, !.cur.b = n, !.pend = Upd(o.pend, id, n)]
      o2 == [o1 EXCEPT !.b = [m \in DOMAIN o1.b |-> IF m # n /\ m \in Range(set) THEN [o1.b[m] EXCEPT !.idle = @ + 1] ELSE o1.b[m]]]
      vWin == IF InWindow(o, n) THEN <<V("C02", "DispatchInWindow", n)>> ELSE <<>>
      vRR == IF o.strategy = "round_robin" /\ ne > 0 /\ Len(s1) >= ne /\ n \in Range(set)
                /\ Cardinality(Range(LastK(s1, ne))) # ne
             THEN <<V("C05", "RRWindow", n)>> ELSE <<>>
      ew == EligW(o)
      vWX == IF o.strategy = "weighted_round_robin" /\ o.fresh /\ ew > 0 /\ Len(s1) >= ew
                /\ \E m \in Range(set) : Count(LastK(s1, ew), m) # o.w[m]
             THEN <<V("C05", "WRRExact", n)>> ELSE <<>>
      vWB == IF o.strategy = "weighted_round_robin" /\ ew > 0
                /\ \E m \in Range(set) : Abs(Count(s1, m) * ew - Len(s1) * o.w[m]) > 2 * TotalW(o)
             THEN <<V("C05", "WRRBound", n)>> ELSE <<>>
      vLC == IF o.strategy = "least_connections" /\ n \in Range(set)
                /\ \E m \in Range(set) : o.b[m].infl < o.b[n].infl
             THEN <<V("C05", "LCMin", n)>> ELSE <<>>
      hash == o.strategy \in {"ip_hash", "ip_hash_consistent"}
      prior == {r \in o.amap : r.c = c /\ r.s = set}
      vAff == IF hash /\ \E r \in prior : r.b # n THEN <<V("C06", "Affinity", n)>> ELSE <<>>
      vRemap == IF o.strategy = "ip_hash_consistent" /\ o.orderKnown /\ ne >= 2
                   /\ \E r \in o.amap : r.c = c /\ r.s = SubSeq(set, 1, ne - 1) /\ n \notin {r.b, set[ne]}
                THEN <<V("C06", "MinimalRemap", n)>> ELSE <<>>
      \* a backend whose window has elapsed must actually get traffic again (rotation strategies)
      starving == {m \in Range(set) : m # n /\
                      \/ (o.strategy = "round_robin" /\ o.b[m].idle + 1 >= ne)
                      \/ (o.strategy = "weighted_round_robin" /\ o.b[m].idle + 1 > 2 * TotalW(o))}
      vStarve == IF starving # {} THEN <<V("C04", "NotReadmitted", CHOOSE m \in starving : TRUE)>> ELSE <<>>
  IN [o2 EXCEPT !.viol = vWin \o vRR \o vWX \o vWB \o vLC \o vAff \o vRemap \o vStarve,
                !.amap = IF hash /\ o.orderKnown THEN o.amap \cup {[c |-> c, s |-> set, b |-> n]} ELSE o.amap]

\* listing: name -> healthy, as /v1/backends reports it right now
Judge(o, h, passiveFailOf) ==
  LET names == {n \in DOMAIN h : n \in DOMAIN o.b}
      vHealthy == {n \in names : h[n] /\ InWindow(o, n)}
      \* listed unhealthy although nothing ever justified an ejection
      vSpur == {n \in names : ~h[n] /\ ~o.b[n].in /\ ~(o.passive /\ o.b[n].cum >= o.thr)}
  IN (IF vHealthy # {} THEN <<V("C04", "ReportedHealthyInWindow", CHOOSE n \in vHealthy : TRUE)>> ELSE <<>>)
     \o (IF vSpur # {} THEN <<V("C04", "SpuriousEjection", CHOOSE n \in vSpur : TRUE)>> ELSE <<>>)

\* where the statement leaves a choice (threshold reached by non-consecutive failures)
\* follow the listing
Resolve(o, h) ==
  LET amb == {n \in DOMAIN h : n \in DOMAIN o.b /\ ~o.b[n].in /\ o.passive /\ o.b[n].cum >= o.thr /\ ~h[n]}
  IN IF amb = {} THEN o
     ELSE Changed([o EXCEPT !.b = [n \in DOMAIN o.b |-> IF n \in amb
                                     THEN [o.b[n] EXCEPT !.in = TRUE, !.age = 0, !.run = 0, !.cum = 0] ELSE o.b[n]]])

\* the exchange of request id ended; kind \in {proxied, aborted, no_backend, rate_limited,
\* cb_open, cb_too_many, ...}; h = listing after the reply
ObsReply(o, id, status, kind, h) ==
  LET dispatched == id \in DOMAIN o.pend
      n == IF dispatched THEN o.pend[id] ELSE ""
      o0 == [Q(o) EXCEPT !.pend = IF dispatched THEN Del(o.pend, id) ELSE o.pend,
                         !.nlimited = IF kind = "rate_limited" THEN @ + 1 ELSE @,
                         !.nrejected = IF kind \in {"cb_open", "cb_too_many"} THEN @ + 1 ELSE @,
                         \* a 429 the harness could attribute neither to the limiter nor to the breaker (both could
                         \* have refused and the refusal's wording, which no property fixes, names neither)
                         !.nambig = IF kind = "refused_429" THEN @ + 1 ELSE @]
  IN
  IF ~dispatched
  THEN LET v503 == IF kind = "no_backend" /\ \E m \in Range(o.pool) : Eligible(o, m)
                   THEN <<V("C02", "Spurious503", o.cur.c)>> ELSE <<>>
       IN [o0 EXCEPT !.viol = v503 \o Judge(o0, h, "")]
  ELSE
  LET failed == status >= 500
      o1 == [o0 EXCEPT !.b[n].infl = @ - 1]
      o2 == IF ~o.passive THEN o1
            ELSE IF kind = "aborted" THEN [o1 EXCEPT !.b[n].cum = @ + 1]   \* may count as a failed response, need not
            ELSE IF failed THEN [o1 EXCEPT !.b[n].run = @ + 1, !.b[n].cum = @ + 1]
            ELSE [o1 EXCEPT !.b[n].run = 0]
      must == o.passive /\ failed /\ kind # "aborted" /\ o2.b[n].run >= o.thr /\ n \in Range(o.pool)
      o3 == IF must THEN EjectNow(o2, n) ELSE o2
      vRun == IF must /\ n \in DOMAIN h /\ h[n] THEN <<V("C04", "EjectAfterRun", n)>> ELSE <<>>
      o4 == Resolve(o3, h)
  IN [o4 EXCEPT !.viol = vRun \o Judge(o4, h, n)]

ObsMark(o, n) == IF n \in DOMAIN o.b THEN [EjectOther(Q(o), n) EXCEPT !.viol = <<>>] ELSE Q(o)

\* an active probe arrived at backend n with scripted result r
ObsProbe(o, n, r) == IF r # "ok" /\ n \in DOMAIN o.b /\ n \in Range(o.pool) /\ ~InWindow(o, n)
                     THEN [EjectOther(Q(o), n) EXCEPT !.viol = <<>>] ELSE Q(o)

\* ------------------------------------------------------------------ admin
Names(items) == [i \in DOMAIN items |-> items[i].name]

\* op \in {add, remove, strategy}; items = /v1/backends right after the operation returned
\* badAddr: the address of an add does not parse (the only legitimate reasons to refuse an add are that and a name
\* that is already configured)
ObsAdmin(o, op, name, w, s, status, pre, items, badAddr) ==
  LET names == Range(Names(items))
      Static(x) == [name |-> x.name, addr |-> x.addr, w |-> x.w]
      okAdd == op = "add" /\ status = 201
      okRm == op = "remove" /\ status = 200
      okSt == op = "strategy" /\ status = 200
      failedOp == status >= 400
      same == items = pre
      vAdd == IF okAdd /\ name \notin names THEN <<V("C11", "AddVisible", name)>> ELSE <<>>
      vRm == IF okRm /\ name \in names THEN <<V("C11", "RemoveGone", name)>> ELSE <<>>
      vFail == IF failedOp /\ ~same THEN <<V("C11", "FailedOpChanged", op)>> ELSE <<>>
      \* a strategy switch keeps exactly the same backends with their weights and health
      vSt == IF okSt /\ {items[i] : i \in DOMAIN items} # {pre[i] : i \in DOMAIN pre}
             THEN <<V("C11", "StrategyPreserves", s)>> ELSE <<>>
      vRefused == IF op = "add" /\ status >= 400 /\ ~badAddr /\ name \notin Range(Names(pre))
                  THEN <<V("C11", "ValidAddRefused", name)>> ELSE <<>>
      vOther == IF (okAdd \/ okRm) /\
                   {x \in {items[i] : i \in DOMAIN items} : x.name # name} # {x \in {pre[i] : i \in DOMAIN pre} : x.name # name}
                THEN <<V("C11", "OtherBackendsChanged", name)>> ELSE <<>>
      o1 == [Q(o) EXCEPT !.lastItems = items]
      o2 == CASE okAdd /\ name \notin DOMAIN o.b ->
                   Changed([o1 EXCEPT !.pool = Append(o.pool, name), !.b = Upd(o.b, name, NewB),
                                      !.w = Upd(o.w, name, W1(w)), !.removed = @ \ {name}])
              [] okAdd /\ name \in DOMAIN o.b /\ name \notin Range(o.pool) ->
                   \* exchanges of the removed backend that are still in flight complete under the same name
                   Changed([o1 EXCEPT !.pool = Append(o.pool, name),
                                      !.b = Upd(o.b, name, [NewB EXCEPT !.infl = o.b[name].infl, !.disp = o.b[name].disp,
                                                                        !.disp0 = o.b[name].disp - o.b[name].infl]),
                                      !.w = Upd(o.w, name, W1(w)), !.removed = @ \ {name}])
              [] okRm /\ name \in Range(o.pool) ->
                   Changed([o1 EXCEPT !.pool = SelectSeq(o.pool, LAMBDA x : x # name), !.removed = @ \cup {name},
                                      !.orderKnown = FALSE, !.amap = {}])
              [] okSt -> Changed([o1 EXCEPT !.strategy = s, !.amap = {}])
              [] OTHER -> o1
  IN [o2 EXCEPT !.viol = vAdd \o vRm \o vFail \o vSt \o vOther \o vRefused]

\* a plain listing (no operation): remember it
ObsList(o, items) == [Q(o) EXCEPT !.lastItems = items]

\* ------------------------------------------------------------------ accounting (C13)
\* snapshot of /metrics, /health and /v1/backends at a moment the script declares quiescent
ObsSnap(o, e) ==
  LET inflight == [n \in DOMAIN o.b |-> o.b[n].infl]
      vTot == IF e.total # o.nreq THEN <<V("C13", "TotalCount", "total")>> ELSE <<>>
      npend == Cardinality(DOMAIN o.pend)      \* exchanges still in flight are counted in total only
      vPart == IF e.total # e.ok + e.failed + e.limited + npend THEN <<V("C13", "Partition", "sum")>> ELSE <<>>
      \* rate-limited is the one class the statement names exactly
      vLim == IF e.limited < o.nlimited \/ e.limited > o.nlimited + o.nambig THEN <<V("C13", "LimitedCount", "rate_limited")>> ELSE <<>>
      bt == {n \in DOMAIN o.b : n \in DOMAIN e.backends /\ e.backends[n].total # o.b[n].disp - o.b[n].infl
                                                          /\ e.backends[n].total # o.b[n].disp - o.b[n].infl - o.b[n].disp0}
      bt0 == {n \in DOMAIN o.b : n \notin DOMAIN e.backends /\ o.b[n].disp - o.b[n].infl # 0}
      \* an entry published under one backend's name that describes another one
      bn == {n \in DOMAIN e.backends : e.backends[n].name # n}
      vBT == IF bt \cup bt0 \cup bn # {} THEN <<V("C13", "BackendTotals", CHOOSE n \in bt \cup bt0 \cup bn : TRUE)>> ELSE <<>>
      g1 == {n \in DOMAIN o.b : n \in DOMAIN e.backends /\ e.backends[n].active # inflight[n]}
      g2 == {n \in DOMAIN o.b : n \in DOMAIN e.health /\ e.health[n].active # inflight[n]}
      g3 == {i \in DOMAIN e.list : e.list[i].name \in DOMAIN o.b /\ e.list[i].active # inflight[e.list[i].name]}
      vG == IF g1 \cup g2 # {} \/ g3 # {} THEN <<V("C13", "Gauge", IF g1 \cup g2 # {} THEN CHOOSE n \in g1 \cup g2 : TRUE ELSE "list")>> ELSE <<>>
      hm == [n \in {x \in DOMAIN e.backends : x \in DOMAIN o.b} |-> e.backends[n].healthy]
      hh == [n \in {x \in DOMAIN e.health : x \in DOMAIN o.b} |-> e.health[n].healthy]
      vH == {n \in DOMAIN hm : hm[n] /\ InWindow(o, n)} \cup {n \in DOMAIN hh : hh[n] /\ InWindow(o, n)}
      vHv == IF vH # {} THEN <<V("C04", "ReportedHealthyInWindow", CHOOSE n \in vH : TRUE)>> ELSE <<>>
  IN [Q(o) EXCEPT !.viol = vTot \o vPart \o vLim \o vBT \o vG \o vHv]
=============================================================================
