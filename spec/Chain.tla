-------------------------------- MODULE Chain --------------------------------
(* C17 -- plugin chain semantics as the property states them.  A chain is a  *)
(* sequence of plugin tokens; P1/P2/P3 are tracing probe plugins registered   *)
(* by the harness through the public RegisterBuiltin; AUTH (custom-auth) and  *)
(* SIZE (size_limit) reject; the rest pass.  Tokens ending in "!" are invalid *)
(* configurations (unknown name, missing / wrongly typed / out-of-range       *)
(* options): building such a chain must fail.                                 *)
EXTENDS Integers, Sequences, FiniteSets, TLC

\* SIZEL: a second, laxer size_limit (1000 bytes: it lets the "big" body through, the stricter SIZE behind it must still refuse)
\* AUTHBLANK: custom-auth configured with a whitespace-only key.  No request can present such a key, so the plugin
\* either refuses to start or turns every request away; it must never let one through
Valid == {"P1", "P2", "P3", "AUTH", "AUTHBLANK", "SIZE", "SIZEL", "HDR", "LOG", "GZIP", "RID"}
Invalid == {"NONAME!", "AUTH_nokey!", "AUTH_numkey!", "AUTH_emptykey!", "SIZE_neg!", "SIZE_zero!", "SIZE_str!",
            "GZIP_nolevel!", "GZIP_level99!", "GZIP_types!", "HDR_badval!"}
Probes == {"P1", "P2", "P3"}

\* request classes: key "ok" or one of the wrong / missing forms, body \in {"small","big"}
Rejects(p, req) == \/ p = "AUTH" /\ req.key # "ok"
                   \/ p = "AUTHBLANK"
                   \/ p = "SIZE" /\ req.body = "big"
RejectCode(p) == IF p \in {"AUTH", "AUTHBLANK"} THEN 401 ELSE 413

RECURSIVE Walk(_, _, _, _)
\* returns [enter, backend, status]
Walk(chain, i, req, entered) ==
  IF i > Len(chain) THEN [enter |-> entered, backend |-> TRUE, status |-> 200]
  ELSE LET p == chain[i] IN
       IF Rejects(p, req) THEN [enter |-> entered, backend |-> FALSE, status |-> RejectCode(p)]
       ELSE Walk(chain, i + 1, req, IF p \in Probes THEN Append(entered, p) ELSE entered)

Expected(c) == Walk(c.chain, 1, c.req, <<>>)
HasInvalid(c) == \E i \in DOMAIN c.chain : c.chain[i] \in Invalid
Reverse(s) == [i \in DOMAIN s |-> s[Len(s) - i + 1]]

\* o = [build: "ok"|"err", enter, exit, backend, status]
Check(c, o) ==
  IF HasInvalid(c)
  THEN IF o.build = "err" THEN <<>> ELSE <<"BuildFailsClosed">>
  ELSE IF o.build # "ok" THEN (IF \E i \in DOMAIN c.chain : c.chain[i] = "AUTHBLANK" THEN <<>> ELSE <<"ValidChainRejected">>)
  ELSE LET e == Expected(c) IN
       (IF o.enter # e.enter THEN <<IF Len(o.enter) > Len(e.enter) THEN "RejectionStops" ELSE "Order">> ELSE <<>>)
       \o (IF o.exit # Reverse(o.enter) THEN <<"ExitOrder">> ELSE <<>>)
       \o (IF o.backend # e.backend THEN <<IF o.backend THEN "RejectionStops_Backend" ELSE "BackendNotReached">> ELSE <<>>)
       \o (IF o.status # e.status THEN <<"Status">> ELSE <<>>)

\* ---- case spaces
SeqsUpTo(S, n) == UNION {[1..k -> S] : k \in 0..n}
\* wrong keys in several shapes: other length, same length as the configured key, a prefix of it, another letter case
\* shape: how the request looks apart from key and body -- "plain" (POST), another method, a CORS preflight (OPTIONS with
\* Origin and Access-Control-Request-Method; anybody can send one), a WebSocket upgrade request, a HEAD.  None of that is
\* in the statement: a request without the key is rejected whatever it looks like
Shapes == {"plain", "options", "preflight", "upgrade", "head", "delete"}
Reqs == [key : {"ok", "wrong", "samelen", "prefix", "upper", "none"}, body : {"small", "big"}, shape : {"plain"}]
ShapeCases == [chain : {<<"AUTH">>, <<"P1", "AUTH", "P2">>, <<"AUTH", "SIZE", "P1">>, <<"LOG", "AUTH", "HDR", "P3">>, <<"P1", "SIZE", "P2">>},
               req : [key : {"ok", "wrong", "none"}, body : {"small", "big"}, shape : Shapes \ {"plain"}]]
\* at most one of each probe (they are identified by name), any multiset of the others
DistinctProbes(ch) == \A i, j \in DOMAIN ch : (i # j /\ ch[i] \in Probes) => ch[i] # ch[j]
ValidCases(n) == {c \in [chain : SeqsUpTo(Valid, n), req : Reqs] : DistinctProbes(c.chain)}
\* one invalid token at every position of short valid chains
InvalidCases(n) == {c \in [chain : SeqsUpTo(Valid \cup Invalid, n), req : {[key |-> "ok", body |-> "small", shape |-> "plain"]}] :
                      Cardinality({i \in DOMAIN c.chain : c.chain[i] \in Invalid}) = 1}
=============================================================================
