------------------------------ MODULE MCPoolM ------------------------------
(* State / action properties checked on the mechanism model Pool alone      *)
(* (finite state graph, exhaustive): the core safety clauses of C02, C04    *)
(* and C05 in state-based form.  The history-based observer clauses are     *)
(* checked on M composed with P in MCPool, to bounded depth.                *)
EXTENDS Pool

AllStrategies == {"round_robin", "least_connections", "weighted_round_robin", "ip_hash", "ip_hash_consistent"}
W321 == [b \in 1..N |-> IF b = 1 THEN 3 ELSE IF b = 2 THEN 2 ELSE 1]
W111 == [b \in 1..N |-> 1]
W2101 == [b \in 1..N |-> IF b = 1 THEN 2 ELSE 1]
Hash2 == [c \in Clients |-> c * 5 + 1]

InWin(b) == ~flag[b] /\ age[b] <= Win
Dispatched == {evs'[i].b : i \in {j \in DOMAIN evs' : evs'[j].ev = "dispatch"}}
No503 == \A i \in DOMAIN evs' : ~(evs'[i].ev = "reply" /\ evs'[i].kind = "no_backend")

\* C02: dispatch only outside the unhealthy window; 503 only if every backend is inside one
DispatchOutsideWindow == [][\A b \in Dispatched : ~InWin(b)]_vars
NoSpurious503 == [][(\E b \in SeqToSet(order) : ~InWin(b)) => No503]_vars
\* C04: admin flag / metrics mirror never show an ejected backend healthy
MirrorSafe == \A b \in SeqToSet(order) : InWin(b) => ~mirror[b]
\* C05: least_connections picks a backend with minimal in-flight count among the eligible
LCMin == [][strat = "least_connections" =>
              \A b \in Dispatched : \A x \in SeqToSet(order) : ~InWin(x) => infl[b] <= infl[x]]_vars
\* C04: a successful probe round never ejects; ejection by the passive path only at the threshold
PassiveOnlyAtThreshold ==
  [][\A b \in B : (flag[b] /\ ~flag'[b] /\ (\E i \in DOMAIN evs' : evs'[i].ev = "req"))
        => pfail[b] + 1 >= Thr]_vars
MView == <<strat, order, flag, age, pfail, rr, cw, infl, probe, mirror>>
TypeOK == /\ rr \in 0..(L - 1) /\ \A b \in B : infl[b] \in 0..MaxHold /\ pfail[b] \in 0..Thr /\ age[b] \in 0..(Win + 1)
=============================================================================
