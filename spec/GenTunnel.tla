------------------------------ MODULE GenTunnel ------------------------------
EXTENDS Tunnel, Json
CONSTANT N
VARIABLE c
Init == c \in Cases(N)
Next == UNCHANGED c
Emit == PrintT("CASE " \o ToJson(c))
=============================================================================
