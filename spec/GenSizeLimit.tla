---------------------------- MODULE GenSizeLimit ----------------------------
EXTENDS SizeLimit, Json
CONSTANTS MaxL, N
VARIABLE c
Init == c \in RespCases(MaxL, N) \cup ReqCases(MaxL) \cup HeadCases(MaxL)
Next == UNCHANGED c
Emit == PrintT("CASE " \o ToJson(c))
=============================================================================
