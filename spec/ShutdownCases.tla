---------------------------- MODULE ShutdownCases ----------------------------
(* C19 scenario space replayed on the real balancer (harness/lbsim, virtual   *)
(* time) and the observer for the recorded events.                            *)
EXTENDS Integers, Sequences, FiniteSets, TLC

Cases == [active : BOOLEAN,
          at : {"at_start", "probe_in_flight", "between_ticks", "after_ticks"},
          stops : {"once", "twice_seq", "twice_conc"},
          held : BOOLEAN,            \* a client request is in flight at a backend when Stop is called
          conns : 0..2,              \* idle pooled connections
          strategy : {"round_robin", "ip_hash"}]

\* o = [stopped (Stop returned), stuck, probe_after (a probe arrived at a backend after Stop returned),
\*      pool_open (pooled connections still open afterwards), held_status (status the in-flight request got, 0 if none)]
Check(c, o) ==
  (IF o.stuck \/ ~o.stopped THEN <<"StopDoesNotReturn">> ELSE <<>>)
  \o (IF o.panic # "" THEN <<"StopPanics">> ELSE <<>>)
  \* the scenarios configure a shutdown timeout of 2 s and a probe timeout of 5 s
  \o (IF o.stop_ms > 2000 THEN <<"StopExceedsShutdownTimeout">> ELSE <<>>)
  \o (IF o.probe_after THEN <<"ProbeAfterStop">> ELSE <<>>)
  \o (IF o.pool_open > 0 THEN <<"PoolNotClosed">> ELSE <<>>)
  \o (IF c.held /\ o.held_status # 200 THEN <<"InFlightRequestNotServed">> ELSE <<>>)

\* process level: the real binary, SIGTERM / SIGINT at a point of a slow request
\* repeat: a second stop signal ("TERM"/"INT") 300 ms after the first, while the request is still draining ("none" = one signal)
\* point "outlasts": the request in flight takes longer (7 s) than the shutdown timeout (4 s): it may be cut, the bound holds
\* tmo: the configured shutdown timeout in seconds (the in-flight requests of before_headers / mid_body need 0.7 s more)
ProcCases == {c \in [sig : {"TERM", "INT"}, point : {"idle", "before_headers", "mid_body", "outlasts"}, probing : BOOLEAN,
                     repeat : {"none", "TERM", "INT"}, tmo : {4, 1}] :
                /\ (c.repeat # "none" => (c.point \notin {"idle", "outlasts"} /\ ~c.probing))
                /\ (c.point = "outlasts" => c.sig = "TERM" /\ c.tmo = 4)
                /\ (c.tmo = 1 => (c.sig = "TERM" /\ ~c.probing /\ c.repeat = "none" /\ c.point \in {"before_headers", "mid_body"}))}
\* o = [exit (exit status, -1 = killed by the harness after the bound), ms, status (in-flight request), complete (full body)]
CheckProc(c, o) ==
  (IF o.exit # 0 THEN <<"ExitStatus">> ELSE <<>>)
  \o (IF o.ms > c.tmo * 1000 + 1500 THEN <<"ShutdownTooSlow">> ELSE <<>>)
  \o (IF c.point \notin {"idle", "outlasts"} /\ (o.status # 200 \/ ~o.complete) THEN <<"InFlightRequestCut">> ELSE <<>>)
  \o (IF o.probes_after > 0 THEN <<"ProbeAfterExit">> ELSE <<>>)
=============================================================================
