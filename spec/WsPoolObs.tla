------------------------------ MODULE WsPoolObs ------------------------------
(* P -- observer for the WebSocket connection pool clauses of C20:           *)
(*   Exclusive      Get never returns a connection that somebody holds       *)
(*   NoClosedReturn Get never returns a connection the pool / a caller closed*)
(*   NoStaleReturn  Get never returns a connection idle longer than          *)
(*                  idle_timeout (k ticks; configured as 10k+2 s, tick 10 s) *)
(*   IdleCap        Stats never reports more than max_idle idle connections  *)
(*                  and a Put beyond the cap does not retain the connection  *)
(*   WrongBackend   Get(b) returns a connection that was put for b           *)
(*   ShutdownCloses after Shutdown every connection that was idle is closed  *)
(* Legal use only: callers put connections they hold, once.                  *)
EXTENDS Integers, Sequences, FiniteSets
Upd(f, k, v) == [x \in (DOMAIN f) \cup {k} |-> IF x = k THEN v ELSE f[x]]

\* conn status: [st |-> "held" | "idle" | "closed", b |-> backend, since |-> tick of the Put]
ObsInit(c) == [maxIdle |-> c.maxidle, to |-> c.to, now |-> 0, conn |-> <<>>, viol |-> <<>>]
Q(o) == [o EXCEPT !.viol = <<>>]
V(clause, info) == [prop |-> "C20", clause |-> clause, info |-> info]
ObsTick(o, n) == [Q(o) EXCEPT !.now = @ + n]

\* connections that are certainly still in the idle list of b (stale ones may have been discarded silently)
IdleOf(o, b) == {c \in DOMAIN o.conn : o.conn[c].st = "idle" /\ o.conn[c].b = b /\ o.now - o.conn[c].since <= o.to}

\* Put(b, c) returned kept (TRUE) or not; closedNow = the connection is closed right after
ObsPut(o, b, c, kept, closedNow) ==
  LET n == Cardinality(IdleOf(o, b))
      v1 == IF kept /\ n + 1 > o.maxIdle THEN <<V("IdleCap", "put kept beyond max_idle")>> ELSE <<>>
      v2 == IF ~kept /\ ~closedNow THEN <<V("RejectedPutNotClosed", c)>> ELSE <<>>
      v3 == IF kept /\ closedNow THEN <<V("KeptButClosed", c)>> ELSE <<>>
  IN [Q(o) EXCEPT !.conn = Upd(o.conn, c, [st |-> IF kept THEN "idle" ELSE "closed", b |-> b, since |-> o.now]),
                  !.viol = v1 \o v2 \o v3]

\* Get(b) returned connection c (0 = nil); closedFlag = it is closed
ObsGet(o, b, c, closedFlag) ==
  IF c = 0 THEN Q(o)
  ELSE IF c \notin DOMAIN o.conn THEN [Q(o) EXCEPT !.viol = <<V("UnknownConn", c)>>]
  ELSE LET k == o.conn[c]
           v1 == IF k.st = "held" THEN <<V("Exclusive", c)>> ELSE <<>>
           v2 == IF k.st = "closed" \/ closedFlag THEN <<V("NoClosedReturn", c)>> ELSE <<>>
           v3 == IF k.st = "idle" /\ o.now - k.since > o.to THEN <<V("NoStaleReturn", c)>> ELSE <<>>
           v4 == IF k.b # b THEN <<V("WrongBackend", c)>> ELSE <<>>
       IN [Q(o) EXCEPT !.conn = Upd(o.conn, c, [k EXCEPT !.st = "held"]), !.viol = v1 \o v2 \o v3 \o v4]

ObsClose(o, b, c) == IF c \in DOMAIN o.conn THEN [Q(o) EXCEPT !.conn = Upd(o.conn, c, [o.conn[c] EXCEPT !.st = "closed"])] ELSE Q(o)

ObsStats(o, b, idle) == [Q(o) EXCEPT !.viol = IF idle > o.maxIdle THEN <<V("IdleCap", "stats")>> ELSE <<>>]

\* open = set of connections still open after Shutdown returned
ObsShutdown(o, open) ==
  LET leaked == {c \in DOMAIN o.conn : o.conn[c].st = "idle" /\ c \in open} IN
  [Q(o) EXCEPT !.conn = [c \in DOMAIN o.conn |-> IF o.conn[c].st = "idle" THEN [o.conn[c] EXCEPT !.st = "closed"] ELSE o.conn[c]],
               !.viol = IF leaked # {} THEN <<V("ShutdownCloses", CHOOSE c \in leaked : TRUE)>> ELSE <<>>]
=============================================================================
