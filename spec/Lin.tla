-------------------------------- MODULE Lin --------------------------------
(* C11, concurrent clause -- linearizability of the admin API together with  *)
(* traffic.  A history is a set of completed operations, each with an        *)
(* invocation and a return instant taken from one atomic counter in the      *)
(* harness (harness/linsim): admin actors and clients run in real parallel   *)
(* against one real LoadBalancer + admin mux.                                *)
(*                                                                           *)
(* Step below is the sequential meaning of the operations (the reference      *)
(* model of the statement): add lists the backend and makes it eligible;     *)
(* remove unlists the name; a strategy switch keeps the set; failed          *)
(* operations change nothing; a request is served by a backend that is in    *)
(* the set at its linearization point and is refused (503) only when the     *)
(* set is empty.  A history is accepted iff SOME total order of its          *)
(* operations that respects real-time precedence (a returned before b was    *)
(* invoked) is a run of Step producing every recorded result -- TLC searches  *)
(* the orders (depth-first, recursive operator).                             *)
EXTENDS Integers, Sequences, FiniteSets, TLC

Strategies == {"round_robin", "least_connections", "weighted_round_robin", "ip_hash", "ip_hash_consistent"}

\* ----------------------------------------------------------------- case space
\* abstract admin operations; the harness concretises names to addresses
Alphabet == <<"add3", "rm1", "st_lc", "list", "add2dup", "rm3", "st_iphc", "st_bad", "add_bad", "add4alias", "rm2", "st_wrr">>
Small == {Alphabet[i] : i \in 1..8}
Full == {Alphabet[i] : i \in DOMAIN Alphabet}

\* a case: initial strategy, one op sequence per admin actor, number of clients (2 requests each)
Case(s, as, t) == [strategy |-> s, actors |-> as, clients |-> t]
Pairs(A) == {<<a, b>> : a \in A, b \in A}
Triples(A) == {<<a, b, c>> : a \in A, b \in A, c \in A}
Singles(A) == {<<a>> : a \in A}

\* (operators with a parameter: TLC evaluates zero-arity constant definitions eagerly in every run, also in the observer)
CasesQuick(u) == {Case("round_robin", <<x, y>>, 2) : x \in Pairs(Small), y \in Pairs(Small)}
CasesThorough(u) ==
  {Case("round_robin", <<x, y>>, 2) : x \in Pairs(Full), y \in Pairs(Full)}
  \cup {Case(s, <<x, y, z>>, 2) : s \in {"weighted_round_robin", "ip_hash_consistent"}, x \in Singles(Full), y \in Singles(Full), z \in Singles(Full)}
  \cup {Case("least_connections", <<x, y>>, 1) : x \in Triples({"add3", "rm1", "st_iphc", "rm3", "list"}), y \in Triples({"add3", "rm1", "st_iphc", "rm3", "list"})}
  \cup {Case("ip_hash", <<w, x, y, z>>, 1) : w \in Singles(Small), x \in Singles(Small), y \in Singles(Small), z \in Singles(Small)}

\* ----------------------------------------------------------------- sequential meaning
Upd(f, k, v) == [x \in (DOMAIN f) \cup {k} |-> IF x = k THEN v ELSE f[x]]
Del(f, k) == [x \in (DOMAIN f) \ {k} |-> f[x]]

\* o.init = sequence of [name, addr, w]
Init(o) == [set |-> [n \in {o.init[i].name : i \in DOMAIN o.init} |->
                       LET b == o.init[CHOOSE i \in DOMAIN o.init : o.init[i].name = n] IN [addr |-> b.addr, w |-> b.w]]]

Items(st) == {[name |-> n, addr |-> st.set[n].addr, w |-> st.set[n].w, healthy |-> TRUE] : n \in DOMAIN st.set}
ItemSet(items) == {items[i] : i \in DOMAIN items}

\* op = [k, name, addr, w, s, bad, status, items, served]  (fields not used by a kind are "" / 0 / <<>>)
Step(st, op) ==
  CASE op.k = "add" ->
         IF op.bad \/ op.name \in DOMAIN st.set
         THEN [ok |-> op.status = 400, st |-> st]
         ELSE [ok |-> op.status = 201, st |-> [st EXCEPT !.set = Upd(@, op.name, [addr |-> op.addr, w |-> op.w])]]
    [] op.k = "remove" -> [ok |-> op.status = 200, st |-> [st EXCEPT !.set = Del(@, op.name)]]
    [] op.k = "strategy" -> [ok |-> op.status = (IF op.s \in Strategies THEN 200 ELSE 400), st |-> st]
    [] op.k = "list" -> [ok |-> op.status = 200 /\ Len(op.items) = Cardinality(ItemSet(op.items)) /\ ItemSet(op.items) = Items(st), st |-> st]
    [] op.k = "req" ->
         [ok |-> IF DOMAIN st.set = {} THEN op.status = 503
                 ELSE op.status = 200 /\ \E n \in DOMAIN st.set : st.set[n].addr = op.served,
          st |-> st]

\* a may be ordered before everything else that is still open: nothing open returned before a was invoked
Minimal(ops, open, i) == \A j \in open : j = i \/ ~(ops[j].ret < ops[i].inv)

RECURSIVE LinFrom(_, _, _)
LinFrom(ops, open, st) ==
  \/ open = {}
  \/ \E i \in open : /\ Minimal(ops, open, i)
                     /\ LET r == Step(st, ops[i]) IN r.ok /\ LinFrom(ops, open \ {i}, r.st)

Linearizable(o) == LinFrom(o.ops, DOMAIN o.ops, Init(o))

\* the weaker per-operation facts, for a readable verdict when the search fails
SomeReqMisrouted(o) ==
  LET names == {o.init[i].addr : i \in DOMAIN o.init} \cup {o.ops[i].addr : i \in {j \in DOMAIN o.ops : o.ops[j].k = "add"}}
  IN \E i \in DOMAIN o.ops : o.ops[i].k = "req" /\ o.ops[i].status = 200 /\ o.ops[i].served \notin names
SomeReqFailed(o) == \E i \in DOMAIN o.ops : o.ops[i].k = "req" /\ o.ops[i].status \notin {200, 503}

Check(c, o) ==
  IF o.stuck THEN <<"HistoryStuck">>      \* an operation never returned: nothing else can be said about the history
  ELSE
  (IF SomeReqFailed(o) THEN <<"RequestNotServed">> ELSE <<>>)
  \o (IF SomeReqMisrouted(o) THEN <<"ServedByUnknown">> ELSE <<>>)
  \o (IF ~Linearizable(o) THEN <<"NotLinearizable">> ELSE <<>>)
=============================================================================
