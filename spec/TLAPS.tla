------------------------------- MODULE TLAPS --------------------------------

(* Backend pragmas. *)


(***************************************************************************)
(* Each of these pragmas can be cited with a BY or a USE.  The pragma that *)
(* is added to the context of an obligation most recently is the one whose *)
(* effects are triggered.                                                  *)
(***************************************************************************)

(***************************************************************************)
(* The following pragmas should be used only as a last resource.  They are *)
(* dependent upon the particular backend provers, and are unlikely to have *)
(* any effect if the set of backend provers changes.  Moreover, they are   *)
(* meaningless to a reader of the proof.                                   *)
(***************************************************************************)


(**************************************************************************)
(* Backend pragma: use the SMT solver for arithmetic.                     *)
(*                                                                        *)
(* This method exists under this name for historical reasons.             *)
(**************************************************************************)

SimpleArithmetic == TRUE (*{ by (prover:"smt3") }*)


(**************************************************************************)
(* Backend pragma: SMT solver                                             *)
(*                                                                        *)
(* This method translates the proof obligation to SMTLIB2. The supported  *)
(* fragment includes first-order logic, set theory, functions and         *)
(* records.                                                               *)
(* SMT calls the smt-solver with the default timeout of 5 seconds         *)
(* while SMTT(n) calls the smt-solver with a timeout of n seconds.        *)
(*                                                                        *)
(* SMTT also accepts a string argument of the form "rN" to bound the      *)
(* underlying Z3 solver by a deterministic `rlimit` budget instead of a    *)
(* wall-clock timeout, e.g. SMTT("r5"). N is a multiple of a fixed base    *)
(* resource count, so a small readable budget like "r5" is meaningful.     *)
(* Unlike a wall-clock timeout, an `rlimit` budget does not depend on CPU  *)
(* speed or load, so the proof's pass/fail outcome reproduces on any       *)
(* machine and every rerun (for a fixed Z3 build); how long it takes to    *)
(* consume the budget still varies by machine. This is Z3-specific.        *)
(**************************************************************************)

SMT == TRUE (*{ by (prover:"smt3") }*)
SMTT(X) == TRUE (*{ by (prover:"smt3"; timeout:@) }*)


(**************************************************************************)
(* Backend pragma: CVC4 SMT solver                                        *)
(*                                                                        *)
(* These methods translate the proof obligation to SMTLIB2 and call CVC4. *)
(**************************************************************************)

(* The CVC3* methods are here for backward compatibility. They call CVC4. *)
CVC3 == TRUE (*{ by (prover: "cvc33") }*)
CVC3T(X) == TRUE (*{ by (prover:"cvc33"; timeout:@) }*)

CVC4 == TRUE (*{ by (prover: "cvc33") }*)
CVC4T(X) == TRUE (*{ by (prover:"cvc33"; timeout:@) }*)


(**************************************************************************)
(* Backend pragma: Yices SMT solver                                       *)
(*                                                                        *)
(* This method translates the proof obligation to Yices native language.  *)
(**************************************************************************)

Yices == TRUE (*{ by (prover: "yices3") }*)
YicesT(X) == TRUE (*{ by (prover:"yices3"; timeout:@) }*)

(**************************************************************************)
(* Backend pragma: veriT SMT solver                                       *)
(*                                                                        *)
(* This method translates the proof obligation to SMTLIB2 and calls veriT.*)
(**************************************************************************)

veriT == TRUE (*{ by (prover: "verit") }*)
veriTT(X) == TRUE (*{ by (prover:"verit"; timeout:@) }*)

(**************************************************************************)
(* Backend pragma: Zipperposition solver                                  *)
(*                                                                        *)
(* This method translates the proof obligation to TPTP and                *)
(* calls Zipperposition.                                                  *)
(**************************************************************************)

Zipper == TRUE (*{ by (prover: "zipper") }*)
ZipperT(X) == TRUE (*{ by (prover:"zipper"; timeout:@) }*)

(**************************************************************************)
(* Backend pragma: Z3 SMT solver                                          *)
(*                                                                        *)
(* This method translates the proof obligation to SMTLIB2 and calls Z3.   *)
(* Z3 is used by default but you can also explicitly call it.             *)
(* Z3T(n) bounds Z3 by a wall-clock timeout of n seconds, while Z3T("rN")  *)
(* bounds it by a deterministic `rlimit` budget of N base units, which      *)
(* reproduces the same outcome on any machine (see SMTT).                   *)
(**************************************************************************)

Z3 == TRUE (*{ by (prover: "z33") }*)
Z3T(X) == TRUE (*{ by (prover:"z33"; timeout:@) }*)

(**************************************************************************)
(* Backend pragma: SPASS superposition prover                             *)
(*                                                                        *)
(* This method translates the proof obligation to the DFG format language *)
(* supported by the ATP SPASS. The translation is based on the SMT one.   *)
(**************************************************************************)

Spass == TRUE (*{ by (prover: "spass") }*)
SpassT(X) == TRUE (*{ by (prover:"spass"; timeout:@) }*)

(**************************************************************************)
(* Backend pragma: The PTL propositional linear time temporal logic       *)
(* prover.  It currently is the LS4 backend.                              *)
(*                                                                        *)
(* This method translates the negetation of the proof obligation to       *)
(* Seperated Normal Form (TRP++ format) and checks for unsatisfiability   *)
(**************************************************************************)

LS4 == TRUE (*{ by (prover: "ls4") }*)
LS4T(X) == TRUE (*{ by (prover: "ls4"; timeout:@) }*)
PTL == TRUE (*{ by (prover: "ls4") }*)

(**************************************************************************)
(* Backend pragma: Zenon with different timeouts (default is 10 seconds)  *)
(*                                                                        *)
(**************************************************************************)

Zenon == TRUE (*{ by (prover:"zenon") }*)
ZenonT(X) == TRUE (*{ by (prover:"zenon"; timeout:@) }*)

(********************************************************************)
(* Backend pragma: Isabelle with different timeouts and tactics     *)
(*  (default is 30 seconds/auto)                                    *)
(********************************************************************)

Isa == TRUE (*{ by (prover:"isabelle") }*)
IsaT(X) ==  TRUE (*{ by (prover:"isabelle"; timeout:@) }*)
IsaM(X) ==  TRUE (*{ by (prover:"isabelle"; tactic:@) }*)
IsaMT(X,Y) ==  TRUE (*{ by (prover:"isabelle"; tactic:@; timeout:@) }*)

(***************************************************************************)
(* The following theorem expresses the (useful implication of the) law of  *)
(* set extensionality, which can be written as                             *)
(*                                                                         *)
(*    THEOREM  \A S, T : (S = T) <=> (\A x : (x \in S) <=> (x \in T))      *)
(*                                                                         *)
(* Theorem SetExtensionality is sometimes required by the SMT backend for  *)
(* reasoning about sets. It is usually counterproductive to include        *)
(* theorem SetExtensionality in a BY clause for the Zenon or Isabelle      *)
(* backends. Instead, use the pragma IsaWithSetExtensionality to instruct  *)
(* the Isabelle backend to use the rule of set extensionality.             *)
(***************************************************************************)
IsaWithSetExtensionality == TRUE
           (*{ by (prover:"isabelle"; tactic:"(auto intro: setEqualI)")}*)

THEOREM SetExtensionality == \A S,T : (\A x : x \in S <=> x \in T) => S = T
OBVIOUS

(***************************************************************************)
(* The following theorem is needed to deduce NotInSetS \notin SetS from    *)
(* the definition                                                          *)
(*                                                                         *)
(*   NotInSetS == CHOOSE v : v \notin SetS                                 *)
(***************************************************************************)
THEOREM NoSetContainsEverything == \A S : \E x : x \notin S
OBVIOUS (*{by (isabelle "(auto intro: inIrrefl)")}*)
-----------------------------------------------------------------------------



(********************************************************************)
(********************************************************************)
(********************************************************************)


(********************************************************************)
(* Old versions of Zenon and Isabelle pragmas below                 *)
(* (kept for compatibility)                                         *)
(********************************************************************)


(**************************************************************************)
(* Backend pragma: Zenon with different timeouts (default is 10 seconds)  *)
(*                                                                        *)
(**************************************************************************)

SlowZenon == TRUE (*{ by (prover:"zenon"; timeout:20) }*)
SlowerZenon == TRUE (*{ by (prover:"zenon"; timeout:40) }*)
VerySlowZenon == TRUE (*{ by (prover:"zenon"; timeout:80) }*)
SlowestZenon == TRUE (*{ by (prover:"zenon"; timeout:160) }*)



(********************************************************************)
(* Backend pragma: Isabelle's automatic search ("auto")             *)
(*                                                                  *)
(* This pragma bypasses Zenon. It is useful in situations involving *)
(* essentially simplification and equational reasoning.             *)
(* Default imeout for all isabelle tactics is 30 seconds.           *)
(********************************************************************)
Auto == TRUE (*{ by (prover:"isabelle"; tactic:"auto") }*)
SlowAuto == TRUE (*{ by (prover:"isabelle"; tactic:"auto"; timeout:120) }*)
SlowerAuto == TRUE (*{ by (prover:"isabelle"; tactic:"auto"; timeout:480) }*)
SlowestAuto == TRUE (*{ by (prover:"isabelle"; tactic:"auto"; timeout:960) }*)

(********************************************************************)
(* Backend pragma: Isabelle's "force" tactic                        *)
(*                                                                  *)
(* This pragma bypasses Zenon. It is useful in situations involving *)
(* quantifier reasoning.                                            *)
(********************************************************************)
Force == TRUE (*{ by (prover:"isabelle"; tactic:"force") }*)
SlowForce == TRUE (*{ by (prover:"isabelle"; tactic:"force"; timeout:120) }*)
SlowerForce == TRUE (*{ by (prover:"isabelle"; tactic:"force"; timeout:480) }*)
SlowestForce == TRUE (*{ by (prover:"isabelle"; tactic:"force"; timeout:960) }*)

(***********************************************************************)
(* Backend pragma: Isabelle's "simplification" tactics                 *)
(*                                                                     *)
(* These tactics simplify the goal before running one of the automated *)
(* tactics. They are often necessary for obligations involving record  *)
(* or tuple projections. Use the SimplfyAndSolve tactic unless you're  *)
(* sure you can get away with just Simplification                      *)
(***********************************************************************)
SimplifyAndSolve        == TRUE
    (*{ by (prover:"isabelle"; tactic:"clarsimp auto?") }*)
SlowSimplifyAndSolve    == TRUE
    (*{ by (prover:"isabelle"; tactic:"clarsimp auto?"; timeout:120) }*)
SlowerSimplifyAndSolve  == TRUE
    (*{ by (prover:"isabelle"; tactic:"clarsimp auto?"; timeout:480) }*)
SlowestSimplifyAndSolve == TRUE
    (*{ by (prover:"isabelle"; tactic:"clarsimp auto?"; timeout:960) }*)

Simplification == TRUE (*{ by (prover:"isabelle"; tactic:"clarsimp") }*)
SlowSimplification == TRUE
    (*{ by (prover:"isabelle"; tactic:"clarsimp"; timeout:120) }*)
SlowerSimplification  == TRUE
    (*{ by (prover:"isabelle"; tactic:"clarsimp"; timeout:480) }*)
SlowestSimplification == TRUE
    (*{ by (prover:"isabelle"; tactic:"clarsimp"; timeout:960) }*)

(**************************************************************************)
(* Backend pragma: Isabelle's tableau prover ("blast")                    *)
(*                                                                        *)
(* This pragma bypasses Zenon and uses Isabelle's built-in theorem        *)
(* prover, Blast. It is almost never better than Zenon by itself, but     *)
(* becomes very useful in combination with the Auto pragma above. The     *)
(* AutoBlast pragma first attempts Auto and then uses Blast to prove what *)
(* Auto could not prove. (There is currently no way to use Zenon on the   *)
(* results left over from Auto.)                                          *)
(**************************************************************************)
Blast == TRUE (*{ by (prover:"isabelle"; tactic:"blast") }*)
SlowBlast == TRUE (*{ by (prover:"isabelle"; tactic:"blast"; timeout:120) }*)
SlowerBlast == TRUE (*{ by (prover:"isabelle"; tactic:"blast"; timeout:480) }*)
SlowestBlast == TRUE (*{ by (prover:"isabelle"; tactic:"blast"; timeout:960) }*)

AutoBlast == TRUE (*{ by (prover:"isabelle"; tactic:"auto, blast") }*)


(**************************************************************************)
(* Backend pragmas: multi-back-ends                                       *)
(*                                                                        *)
(* These pragmas just run a bunch of back-ends one after the other in the *)
(* hope that one will succeed. This saves time and effort for the user at *)
(* the expense of computation time.                                       *)
(**************************************************************************)

(* CVC3 goes first because it's bundled with TLAPS, then the other SMT
   solvers are unlikely to succeed if CVC3 fails, so we run zenon and
   Isabelle before them. *)
AllProvers == TRUE (*{
    by (prover:"cvc33")
    by (prover:"zenon")
    by (prover:"isabelle"; tactic:"auto")
    by (prover:"spass")
    by (prover:"smt3")
    by (prover:"yices3")
    by (prover:"verit")
    by (prover:"z33")
    by (prover:"isabelle"; tactic:"force")
    by (prover:"isabelle"; tactic:"(auto intro: setEqualI)")
    by (prover:"isabelle"; tactic:"clarsimp auto?")
    by (prover:"isabelle"; tactic:"clarsimp")
    by (prover:"isabelle"; tactic:"auto, blast")
  }*)
AllProversT(X) == TRUE (*{
    by (prover:"cvc33"; timeout:@)
    by (prover:"zenon"; timeout:@)
    by (prover:"isabelle"; tactic:"auto"; timeout:@)
    by (prover:"spass"; timeout:@)
    by (prover:"smt3"; timeout:@)
    by (prover:"yices3"; timeout:@)
    by (prover:"verit"; timeout:@)
    by (prover:"z33"; timeout:@)
    by (prover:"isabelle"; tactic:"force"; timeout:@)
    by (prover:"isabelle"; tactic:"(auto intro: setEqualI)"; timeout:@)
    by (prover:"isabelle"; tactic:"clarsimp auto?"; timeout:@)
    by (prover:"isabelle"; tactic:"clarsimp"; timeout:@)
    by (prover:"isabelle"; tactic:"auto, blast"; timeout:@)
  }*)

AllSMT == TRUE (*{
    by (prover:"cvc33")
    by (prover:"smt3")
    by (prover:"yices3")
    by (prover:"verit")
    by (prover:"z33")
  }*)
AllSMTT(X) == TRUE (*{
    by (prover:"cvc33"; timeout:@)
    by (prover:"smt3"; timeout:@)
    by (prover:"yices3"; timeout:@)
    by (prover:"verit"; timeout:@)
    by (prover:"z33"; timeout:@)
  }*)

AllIsa == TRUE (*{
    by (prover:"isabelle"; tactic:"auto")
    by (prover:"isabelle"; tactic:"force")
    by (prover:"isabelle"; tactic:"(auto intro: setEqualI)")
    by (prover:"isabelle"; tactic:"clarsimp auto?")
    by (prover:"isabelle"; tactic:"clarsimp")
    by (prover:"isabelle"; tactic:"auto, blast")
  }*)
AllIsaT(X) == TRUE (*{
    by (prover:"isabelle"; tactic:"auto"; timeout:@)
    by (prover:"isabelle"; tactic:"force"; timeout:@)
    by (prover:"isabelle"; tactic:"(auto intro: setEqualI)"; timeout:@)
    by (prover:"isabelle"; tactic:"clarsimp auto?"; timeout:@)
    by (prover:"isabelle"; tactic:"clarsimp"; timeout:@)
    by (prover:"isabelle"; tactic:"auto, blast"; timeout:@)
  }*)


(**************************************************************************)
(* The pragma ExpandEnabled invokes expansion of the operator ENABLED.    *)
(*                                                                        *)
(* The pragma ExpandCdot invokes expansion of the operator \cdot.         *)
(*                                                                        *)
(* The pragma AutoUSE invokes automated expansion of definitions,         *)
(* for both of ExpandEnabled and ExpandCdot, when each is present.        *)
(*                                                                        *)
(* The pragma Lambdify invokes expansion of the operators                 *)
(* ENABLED and \cdot to an intermediate form with bound VARIABLES,        *)
(* which is a form before introducing rigid quantifiers.                  *)
(* The pragma Lambdify is sound for occurrences of ENABLED and \cdot      *)
(* that are not nested.                                                   *)
(**************************************************************************)
ExpandENABLED == TRUE  (*{ by (prover:"expandenabled") }*)
ExpandCdot == TRUE  (*{ by (prover:"expandcdot") }*)
AutoUSE == TRUE  (*{ by (prover:"autouse") }*)
Lambdify == TRUE  (*{ by (prover:"lambdify") }*)
ENABLEDaxioms == TRUE  (*{ by (prover:"enabledaxioms") }*)
LevelComparison == TRUE  (*{ by (prover:"levelcomparison") }*)

(* The operators EnabledWrapper and CdotWrapper occur in an intermediate  *)
(* representation within TLAPM.                                           *)
EnabledWrapper(Op(_)) == FALSE
CdotWrapper(Op(_)) == FALSE

(***************************************************************************)
(* The following may be used in a `BY ONLY ThmName` for unit testing the   *)
(* triviality checks in TLAPM.                                             *)
(***************************************************************************)
Trivial == TRUE  (*{ by (prover:"trivial") }*)


=============================================================================

The material below is obsolete: the TLA proof rules below are superseded by
the PTL decision procedure, and their formulation is unsound for the semantics
of temporal reasoning that TLAPS adopts.

----------------------------------------------------------------------------
(***************************************************************************)
(*                           TEMPORAL LOGIC                                *)
(*                                                                         *)
(* The following rules are intended to be used when TLAPS handles temporal *)
(* logic.  They will not work now.  Moreover when temporal reasoning is    *)
(* implemented, these rules may be changed or omitted, and additional      *)
(* rules will probably be added.  However, they are included mainly so     *)
(* their names will be defined, preventing the use of identifiers that are *)
(* likely to produce name clashes with future versions of this module.     *)
(***************************************************************************)


(***************************************************************************)
(* The following proof rules (and their names) are from the paper "The     *)
(* Temporal Logic of Actions".                                             *)
(***************************************************************************)
THEOREM RuleTLA1 == ASSUME STATE P, STATE f,
                           P /\ (f' = f) => P'
                    PROVE  []P <=> P /\ [][P => P']_f

THEOREM RuleTLA2 == ASSUME STATE P, STATE Q, STATE f, STATE g,
                           ACTION A, ACTION B,
                           P /\ [A]_f => Q /\ [B]_g
                    PROVE  []P /\ [][A]_f => []Q /\ [][B]_g

THEOREM RuleINV1 == ASSUME STATE I, STATE F,  ACTION N,
                           I /\ [N]_F => I'
                    PROVE  I /\ [][N]_F => []I

THEOREM RuleINV2 == ASSUME STATE I, STATE f, ACTION N
                    PROVE  []I => ([][N]_f <=> [][N /\ I /\ I']_f)

THEOREM RuleWF1 == ASSUME STATE P, STATE Q, STATE f, ACTION N, ACTION A,
                          P /\ [N]_f => (P' \/ Q'),
                          P /\ <<N /\ A>>_f => Q',
                          P => ENABLED <<A>>_f
                   PROVE  [][N]_f /\ WF_f(A) => (P ~> Q)

THEOREM RuleSF1 == ASSUME STATE P, STATE Q, STATE f,
                          ACTION N, ACTION A, TEMPORAL F,
                          P /\ [N]_f => (P' \/ Q'),
                          P /\ <<N /\ A>>_f => Q',
                          []P /\ [][N]_f /\ []F => <> ENABLED <<A>>_f
                   PROVE  [][N]_f /\ SF_f(A) /\ []F => (P ~> Q)

(***************************************************************************)
(* The rules WF2 and SF2 in "The Temporal Logic of Actions" are obtained   *)
(* from the following two rules by the following substitutions: `.         *)
(*                                                                         *)
(*          ___        ___         _______________                         *)
(*      M <- M ,   g <- g ,  EM <- ENABLED <<M>>_g       .'                *)
(***************************************************************************)
THEOREM RuleWF2 == ASSUME STATE P, STATE f, STATE g, STATE EM,
                          ACTION A, ACTION B, ACTION N, ACTION M,
                          TEMPORAL F,
                          <<N /\ B>>_f => <<M>>_g,
                          P /\ P' /\ <<N /\ A>>_f /\ EM => B,
                          P /\ EM => ENABLED A,
                          [][N /\ ~B]_f /\ WF_f(A) /\ []F /\ <>[]EM => <>[]P
                   PROVE  [][N]_f /\ WF_f(A) /\ []F => []<><<M>>_g \/ []<>(~EM)

THEOREM RuleSF2 == ASSUME STATE P, STATE f, STATE g, STATE EM,
                          ACTION A, ACTION B, ACTION N, ACTION M,
                          TEMPORAL F,
                          <<N /\ B>>_f => <<M>>_g,
                          P /\ P' /\ <<N /\ A>>_f /\ EM => B,
                          P /\ EM => ENABLED A,
                          [][N /\ ~B]_f /\ SF_f(A) /\ []F /\ []<>EM => <>[]P
                   PROVE  [][N]_f /\ SF_f(A) /\ []F => []<><<M>>_g \/ <>[](~EM)


(***************************************************************************)
(* The following rule is a special case of the general temporal logic      *)
(* proof rule STL4 from the paper "The Temporal Logic of Actions".  The    *)
(* general rule is for arbitrary temporal formulas F and G, but it cannot  *)
(* yet be handled by TLAPS.                                                *)
(***************************************************************************)
THEOREM RuleInvImplication ==
  ASSUME STATE F, STATE G,
         F => G
  PROVE  []F => []G
PROOF OMITTED

(***************************************************************************)
(* The following rule is a special case of rule TLA2 from the paper "The   *)
(* Temporal Logic of Actions".                                             *)
(***************************************************************************)
THEOREM RuleStepSimulation ==
  ASSUME STATE I, STATE f, STATE g,
         ACTION M, ACTION N,
         I /\ I' /\ [M]_f => [N]_g
  PROVE  []I /\ [][M]_f => [][N]_g
PROOF OMITTED

(***************************************************************************)
(* The following may be used to invoke a decision procedure for            *)
(* propositional temporal logic.                                           *)
(***************************************************************************)
PropositionalTemporalLogic == TRUE
=============================================================================
