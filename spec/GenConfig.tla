------------------------------ MODULE GenConfig ------------------------------
EXTENDS Config, Json
CONSTANT K
VARIABLE c
Init == c \in PairCases \cup BinCases(K)
Next == UNCHANGED c
Emit == PrintT("CASE " \o ToJson([kind |-> "cfg", cfg |-> c]))
=============================================================================
