------------------------------ MODULE GenConfig ------------------------------
EXTENDS Config, Json
CONSTANT K
VARIABLE c
Init == c \in {[kind |-> "cfg", cfg |-> x] : x \in PairCases \cup BinCases(K)} \cup {[kind |-> "proc", cfg |-> x] : x \in ProcCases}
Next == UNCHANGED c
Emit == PrintT("CASE " \o ToJson(c))
=============================================================================
