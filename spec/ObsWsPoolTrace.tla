---------------------------- MODULE ObsWsPoolTrace ----------------------------
EXTENDS Integers, Sequences, TLC, Json, IOUtils
O == INSTANCE WsPoolObs
Tr == ndJsonDeserialize(IOEnv.TRACE_FILE)
VARIABLES l, seg, obs
Init == l = 1 /\ seg = "none" /\ obs = O!ObsInit([maxidle |-> 1, to |-> 1])
ToSet(s) == {s[i] : i \in DOMAIN s}
Next == /\ l <= Len(Tr) /\ l' = l + 1
        /\ LET e == Tr[l] IN
           /\ seg' = IF e.ev = "cfg" THEN e.id ELSE seg
           /\ obs' = CASE e.ev = "cfg" -> O!ObsInit(e.cf)
                       [] e.ev = "tick" -> O!ObsTick(obs, e.n)
                       [] e.ev = "put" -> O!ObsPut(obs, e.b, e.c, e.kept, e.closed)
                       [] e.ev = "get" -> O!ObsGet(obs, e.b, e.c, e.closed)
                       [] e.ev = "close" -> O!ObsClose(obs, e.b, e.c)
                       [] e.ev = "stats" -> O!ObsStats(obs, e.b, e.idle)
                       [] e.ev = "shutdown" -> O!ObsShutdown(obs, ToSet(e.open))
                       [] OTHER -> O!Q(obs)
Report == obs.viol = <<>> \/ PrintT("VIOL " \o ToJson([line |-> l - 1, seg |-> seg, v |-> obs.viol]))
Consumed == TLCGet("stats").diameter - 1 = Len(Tr)
=============================================================================
