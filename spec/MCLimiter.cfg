CONSTANTS
  Clients = {1, 2}
  CfgSet <- CfgQuick
  CA0 = 6
INIT MCInit
NEXT MCNext
VIEW View
CONSTRAINT Bound
INVARIANTS NoViolation TokensInRange
