------------------------------- MODULE Shutdown -------------------------------
(* M -- mechanism model of LoadBalancer.Stop and the active health-check      *)
(* goroutines (internal/loadbalancer/loadbalancer.go 298-409, 770-783):       *)
(*   ticker goroutine: select {ctx.Done -> wg.Wait; return | tick -> for each *)
(*     backend: wg.Add(1); go probe}                                          *)
(*   probe goroutine: if ctx done: return; send the request with ctx; Done    *)
(*   Stop: cancel(); wg.Wait(); pool.Shutdown()                               *)
(* Go's select picks among ready cases at random, so a tick may still be      *)
(* served after cancel().  sync.WaitGroup is modelled by its counter; the     *)
(* documented misuse (Add that starts from zero concurrently with Wait) is    *)
(* flagged as a hazard.  A request sent with a cancelled context never        *)
(* leaves the client.                                                         *)
EXTENDS Integers, Sequences, FiniteSets, TLC

CONSTANTS Backends, MaxTicks, Stops
VARIABLES cancelled, wg, tickerPc, todo, probes, stopPc, ticks, sentAfterStop, hazard, poolOpen

vars == <<cancelled, wg, tickerPc, todo, probes, stopPc, ticks, sentAfterStop, hazard, poolOpen>>
\* probes: function id -> pc in {"start","sending","done"}; stopPc: per stopper "idle","cancelled","waited","done"
StopDone == \E s \in Stops : stopPc[s] = "done"
Waiting == \E s \in Stops : stopPc[s] = "cancelled"

Init == /\ cancelled = FALSE /\ wg = 0 /\ tickerPc = "select" /\ todo = {} /\ probes = <<>>
        /\ stopPc = [s \in Stops |-> "idle"] /\ ticks = 0 /\ sentAfterStop = FALSE /\ hazard = FALSE /\ poolOpen = TRUE

TickFire == /\ tickerPc = "select" /\ ticks < MaxTicks
            /\ tickerPc' = "checking" /\ todo' = Backends /\ ticks' = ticks + 1
            /\ UNCHANGED <<cancelled, wg, probes, stopPc, sentAfterStop, hazard, poolOpen>>
AddProbe == /\ tickerPc = "checking" /\ todo # {}
            /\ LET b == CHOOSE x \in todo : TRUE IN
               /\ todo' = todo \ {b}
               /\ probes' = Append(probes, "start")
            /\ wg' = wg + 1
            /\ hazard' = (hazard \/ (wg = 0 /\ Waiting))      \* Add from zero while a Wait may be in progress
            /\ UNCHANGED <<cancelled, tickerPc, stopPc, ticks, sentAfterStop, poolOpen>>
RoundDone == /\ tickerPc = "checking" /\ todo = {} /\ tickerPc' = "select"
             /\ UNCHANGED <<cancelled, wg, todo, probes, stopPc, ticks, sentAfterStop, hazard, poolOpen>>
TickerSeesCancel == /\ tickerPc = "select" /\ cancelled /\ wg = 0 /\ tickerPc' = "exited"
                    /\ UNCHANGED <<cancelled, wg, todo, probes, stopPc, ticks, sentAfterStop, hazard, poolOpen>>
ProbeStart(i) == /\ i \in DOMAIN probes /\ probes[i] = "start"
                 /\ IF cancelled THEN probes' = [probes EXCEPT ![i] = "done"] /\ wg' = wg - 1
                    ELSE probes' = [probes EXCEPT ![i] = "sending"] /\ UNCHANGED wg
                 /\ UNCHANGED <<cancelled, tickerPc, todo, stopPc, ticks, sentAfterStop, hazard, poolOpen>>
\* the request leaves the client only if its context is still live
ProbeSend(i) == /\ i \in DOMAIN probes /\ probes[i] = "sending"
                /\ probes' = [probes EXCEPT ![i] = "done"] /\ wg' = wg - 1
                /\ sentAfterStop' = (sentAfterStop \/ (~cancelled /\ StopDone))
                /\ UNCHANGED <<cancelled, tickerPc, todo, stopPc, ticks, hazard, poolOpen>>
StopCancel(s) == /\ stopPc[s] = "idle" /\ cancelled' = TRUE /\ stopPc' = [stopPc EXCEPT ![s] = "cancelled"]
                 /\ UNCHANGED <<wg, tickerPc, todo, probes, ticks, sentAfterStop, hazard, poolOpen>>
StopWait(s) == /\ stopPc[s] = "cancelled" /\ wg = 0 /\ stopPc' = [stopPc EXCEPT ![s] = "waited"]
               /\ UNCHANGED <<cancelled, wg, tickerPc, todo, probes, ticks, sentAfterStop, hazard, poolOpen>>
StopPool(s) == /\ stopPc[s] = "waited" /\ poolOpen' = FALSE /\ stopPc' = [stopPc EXCEPT ![s] = "done"]
               /\ UNCHANGED <<cancelled, wg, tickerPc, todo, probes, ticks, sentAfterStop, hazard>>

Next == TickFire \/ AddProbe \/ RoundDone \/ TickerSeesCancel
        \/ (\E i \in 1..(MaxTicks * Cardinality(Backends)) : ProbeStart(i) \/ ProbeSend(i))
        \/ (\E s \in Stops : StopCancel(s) \/ StopWait(s) \/ StopPool(s))
Spec == Init /\ [][Next]_vars
Fair == Spec /\ WF_vars(Next)

NoProbeAfterStop == ~sentAfterStop
PoolClosedAfterStop == StopDone => ~poolOpen
\* every Stop call returns once started (under fairness)
StopReturns == \A s \in Stops : (stopPc[s] = "cancelled") ~> (stopPc[s] = "done")
\* model-only hazard (sync.WaitGroup contract): Add from zero while Wait may be running
NoWaitGroupHazard == ~hazard
=============================================================================
