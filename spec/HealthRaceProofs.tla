-------------------------- MODULE HealthRaceProofs --------------------------
(* Unbounded complement to the TLC runs of MCHealthRace (2-3 threads): for  *)
(* EVERY set of threads -- any number of concurrent health checks, probes,  *)
(* ejections and requests, in any interleaving of their critical sections   *)
(* -- and every window length, the repaired mechanism of HealthRace.tla     *)
(* (Fixed = TRUE: the metrics mirror is published inside the backend's lock *)
(* and a successful probe never overrides a running window) keeps both the  *)
(* health flag and the published mirror FALSE while the window of the last  *)
(* ejection runs (C04: FlagSafe, MirrorSafe).                               *)
(* Checked by the TLA+ proof system (tlapm), not by enumeration.            *)
EXTENDS HealthRace, TLAPS

ASSUME Assump == /\ Fixed = TRUE
                 /\ W \in Nat /\ MaxNow \in Nat

Inv == /\ now \in Nat /\ lastMark \in Nat /\ until \in Nat
       /\ flag \in BOOLEAN /\ mirror \in BOOLEAN /\ marked \in BOOLEAN
       /\ marked => until = lastMark + W
       /\ InWindow => (~flag /\ ~mirror)
       /\ \A t \in Threads : pc[t] \notin {"hbmirror", "probemirror"}
       /\ pc \in [Threads -> STRING]

THEOREM InitInv == Init => Inv
  BY Assump DEF Init, Inv, InWindow

THEOREM NextInv == Inv /\ [Next]_vars => Inv'
<1> SUFFICES ASSUME Inv, [Next]_vars PROVE Inv'
  OBVIOUS
<1> USE Assump
<1>1. ASSUME NEW t \in Threads, Read(t) PROVE Inv'
  BY <1>1 DEF Read, Inv, InWindow, Goto, Keep
<1>2. ASSUME NEW t \in Threads, Expire(t) PROVE Inv'
  BY <1>2 DEF Expire, Inv, InWindow, Goto, Keep
<1>3. ASSUME NEW t \in Threads, HbMirror(t) PROVE Inv'
  BY <1>3 DEF HbMirror, Inv
<1>4. ASSUME NEW t \in Threads, Exchange(t) PROVE Inv'
  BY <1>4 DEF Exchange, Inv, InWindow, Goto, Keep
<1>5. ASSUME NEW t \in Threads, ProbeLock(t) PROVE Inv'
  BY <1>5 DEF ProbeLock, Inv, InWindow, Goto, Keep
<1>6. ASSUME NEW t \in Threads, ProbeMirror(t) PROVE Inv'
  BY <1>6 DEF ProbeMirror, Inv
<1>7. ASSUME NEW t \in Threads, Mark(t) PROVE Inv'
  BY <1>7 DEF Mark, Inv, InWindow, Goto, Keep
<1>8. ASSUME NEW t \in Threads, Inc(t) \/ PubIncRead(t) \/ PubInc(t) \/ Dec(t) \/ PubDecRead(t) \/ PubDec(t) PROVE Inv'
  BY <1>8 DEF Inc, PubIncRead, PubInc, Dec, PubDecRead, PubDec, Inv, InWindow, Goto, Keep
<1>9. ASSUME Tick PROVE Inv'
  BY <1>9 DEF Tick, Inv, InWindow, Keep
<1>10. ASSUME UNCHANGED vars PROVE Inv'
  BY <1>10 DEF vars, Inv, InWindow
<1> QED
  BY <1>1, <1>2, <1>3, <1>4, <1>5, <1>6, <1>7, <1>8, <1>9, <1>10 DEF Next, Step

THEOREM Safety == Init /\ [][Next]_vars => [](FlagSafe /\ MirrorSafe)
<1>1. Inv => FlagSafe /\ MirrorSafe
  BY DEF Inv, FlagSafe, MirrorSafe
<1> QED
  BY InitInv, NextInv, <1>1, PTL
=============================================================================
