---------------------------- MODULE GenIdHeaders ----------------------------
EXTENDS IdHeaders, Json
VARIABLE c
Init == c \in Cases
Next == UNCHANGED c
Emit == PrintT("CASE " \o ToJson(c))
=============================================================================
