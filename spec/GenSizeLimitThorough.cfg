CONSTANTS
  MaxL = 4
  N = 4
INIT Init
NEXT Next
INVARIANT Emit
CHECK_DEADLOCK FALSE
