----------------------------- MODULE TraceWsPool -----------------------------
(* Conformance of the real WebSocket pool to the mechanism model M           *)
(* (WsPool.tla), code -> specification: every operation the harness          *)
(* (harness/poolsim, virtual time) performed on the real pool is the model's *)
(* action of the same name and must produce the logged result -- whether Put *)
(* kept the connection, which connection Get returned, the idle count Stats  *)
(* reported, which connections are still open after Shutdown.  M is          *)
(* deterministic; a mismatch marks the segment diverged ("MDIV"), which is a *)
(* statement about the model, never a property verdict.                      *)
EXTENDS WsPool, Json, IOUtils

Tr == ndJsonDeserialize(IOEnv.TRACE_FILE)
VARIABLES l, mode, seg, note
E == Tr[l]

TraceInit == /\ l = 1 /\ mode = "skip" /\ seg = "none" /\ note = <<>>
             /\ cf = [maxidle |-> 1, to |-> 1]
             /\ idle = [b \in Backends |-> <<>>] /\ st = [c \in Conns |-> "new"] /\ phase = 0 /\ evs = <<>>
TReset == /\ E.ev = "cfg"
          /\ cf' = E.cf
          /\ idle' = [b \in Backends |-> <<>>] /\ st' = [c \in Conns |-> "new"] /\ phase' = 0 /\ evs' = <<>>
          /\ mode' = "ok" /\ seg' = E.id /\ note' = <<>> /\ l' = l + 1
Keep == UNCHANGED <<mode, seg>> /\ note' = <<>> /\ l' = l + 1

OpenSet == {E.open[i] : i \in DOMAIN E.open}
Conform ==
  /\ mode = "ok"
  /\ CASE E.ev = "put" -> /\ E.b \in Backends /\ E.c \in Conns /\ Put(E.b, E.c)
                          /\ evs'[1].kept = E.kept /\ E.closed = (st'[E.c] = "closed")
       [] E.ev = "get" -> /\ E.b \in Backends /\ Get(E.b) /\ evs'[1].c = E.c /\ ~E.closed
       [] E.ev = "close" -> E.b \in Backends /\ E.c \in Conns /\ Close(E.b, E.c)
       [] E.ev = "tick" -> Tick
       [] E.ev = "stats" -> E.b \in Backends /\ Stats(E.b) /\ evs'[1].idle = E.idle
       [] E.ev = "shutdown" -> /\ Shutdown
                               /\ \A c \in Conns : (st'[c] = "closed" => c \notin OpenSet) /\ (st'[c] = "held" => c \in OpenSet)
       [] OTHER -> FALSE
  /\ Keep
Stepping == E.ev \in {"put", "get", "close", "tick", "stats", "shutdown"}
TDiverge == /\ mode = "ok" /\ Stepping /\ ~ENABLED Conform
            /\ UNCHANGED vars /\ mode' = "div" /\ UNCHANGED seg /\ l' = l + 1
            /\ note' = [line |-> l, seg |-> seg, ev |-> E, model |-> [idle |-> idle, st |-> st, phase |-> phase]]
Other == /\ \/ (mode = "ok" /\ ~Stepping /\ E.ev # "cfg")
            \/ (mode # "ok" /\ E.ev # "cfg")
         /\ UNCHANGED vars /\ Keep
TraceNext == l <= Len(Tr) /\ (TReset \/ Conform \/ TDiverge \/ Other)
Report == note = <<>> \/ PrintT("MDIV " \o ToJson(note))
Consumed == TLCGet("stats").diameter - 1 = Len(Tr)
=============================================================================
