------------------------------- MODULE MCPool -------------------------------
(* Pool (M) composed with PoolObs (P); emits every transition for replay.   *)
EXTENDS Pool, Json

VARIABLES obs, act

O == INSTANCE PoolObs

mcvars == <<vars, obs, act>>

Name(b) == "b" \o ToString(b)
Addr(c) == "10.0.0." \o ToString(c)

CfgRec == [strategy |-> strat,
           backends |-> [i \in 1..N0 |-> [name |-> Name(i), w |-> Weight[i]]],
           passive |-> [on |-> PassiveOn, thr |-> Thr, win |-> Win],
           active |-> [on |-> ActiveOn, iv |-> 1]]

\* /v1/backends as the model would list it
Items(ord, fl) == [i \in DOMAIN ord |-> [name |-> Name(ord[i]), addr |-> Name(ord[i]), w |-> Weight[ord[i]], healthy |-> fl[ord[i]]]]
Listing(ord, fl) == [n \in {Name(ord[i]) : i \in DOMAIN ord} |-> fl[CHOOSE b \in B : Name(b) = n]]

MCInit == /\ Init
          /\ obs = O!ObsInit(CfgRec)
          /\ act = [a |-> "init"]

Status(k) == CASE k = "ok" -> 200 [] k = "fail" -> 500 [] k = "cancel" -> 502 [] k = "abort" -> 0 [] OTHER -> 200
Kind(k) == CASE k = "abort" -> "aborted" [] k = "no_backend" -> "no_backend" [] OTHER -> "proxied"

\* feed the events of the step just taken to the observer, accumulating violations
RECURSIVE Feed(_, _, _)
Feed(o, es, i) ==
  IF i > Len(es) THEN o
  ELSE LET e == es[i]
           h == Listing(order', flag')
           o1 == CASE e.ev = "req" -> O!ObsReq(o, 0, Addr(e.c))
                   [] e.ev = "dispatch" -> O!ObsDispatch(o, 0, Name(e.b))
                   [] e.ev = "reply" /\ e.kind = "held" ->
                        \* the exchange stays in flight under a per-backend LIFO id
                        [O!Q(o) EXCEPT !.pend = O!Upd(O!Del(o.pend, 0), e.b * 100 + infl'[e.b], Name(e.b))]
                   [] e.ev = "reply" -> O!ObsReply(o, 0, Status(e.kind), Kind(e.kind), h)
                   [] e.ev = "release" -> O!ObsReply(o, e.b * 100 + infl[e.b], 200, "proxied", h)
                   [] e.ev = "mark" -> O!ObsMark(o, Name(e.b))
                   [] e.ev = "probe" -> O!ObsProbe(o, Name(e.b), e.r)
                   [] e.ev = "tick" -> O!ObsTick(o, 1)
                   [] e.ev = "add" -> O!ObsAdmin(o, "add", Name(e.b), Weight[e.b], "", 201, Items(order, flag), Items(order', flag'), FALSE)
                   [] e.ev = "remove" -> O!ObsAdmin(o, "remove", Name(e.b), 0, "", 200, Items(order, flag), Items(order', flag'), FALSE)
                   [] e.ev = "strategy" -> O!ObsAdmin(o, "strategy", "", 0, e.s, 200, Items(order, flag), Items(order', flag'), FALSE)
                   [] e.ev = "add_dup" -> O!ObsAdmin(o, "add", Name(e.b), Weight[e.b], "", 400, Items(order, flag), Items(order', flag'), FALSE)
                   [] e.ev = "add_badurl" -> O!ObsAdmin(o, "add", Name(e.b), 1, "", 400, Items(order, flag), Items(order', flag'), TRUE)
                   [] e.ev = "strategy_unknown" -> O!ObsAdmin(o, "strategy", "", 0, "fastest", 400, Items(order, flag), Items(order', flag'), FALSE)
                   [] e.ev = "remove_absent" -> O!ObsAdmin(o, "remove", Name(e.b), 0, "", 200, Items(order, flag), Items(order', flag'), FALSE)
                   [] OTHER -> O!Q(o)
       IN LET rest == Feed(o1, es, i + 1) IN [rest EXCEPT !.viol = o1.viol \o rest.viol]

MCActs ==
     \/ \E c \in Clients, o \in Outcomes : Req(c, o) /\ act' = [a |-> "req", c |-> c, o |-> o]
     \/ \E b \in B : \/ Release(b) /\ act' = [a |-> "release", b |-> b]
                     \/ Mark(b) /\ act' = [a |-> "mark", b |-> b]
                     \/ Add(b) /\ act' = [a |-> "add", b |-> b, w |-> Weight[b]]
                     \/ Remove(b) /\ act' = [a |-> "remove", b |-> b]
     \/ \E b \in B, r \in {"ok", "fail"} : SetProbe(b, r) /\ act' = [a |-> "setprobe", b |-> b, r |-> r]
     \/ \E s \in Strategies : SetStrategy(s) /\ act' = [a |-> "strategy", s |-> s]
     \/ \E b \in B, k \in {"add_dup", "add_badurl", "strategy_unknown", "remove_absent"} : BadOp(k, b) /\ act' = [a |-> k, b |-> b]
     \/ Tick /\ act' = [a |-> "tick"]

MCNext == MCActs /\ obs' = Feed(obs, evs', 1)
\* transition emission does not need the observer (and keeps the states small)
GenNext == MCActs /\ UNCHANGED obs

AllStrategies == {"round_robin", "least_connections", "weighted_round_robin", "ip_hash", "ip_hash_consistent"}
W321 == [b \in 1..N |-> IF b = 1 THEN 3 ELSE IF b = 2 THEN 2 ELSE 1]
W111 == [b \in 1..N |-> 1]
W2101 == [b \in 1..N |-> IF b = 1 THEN 2 ELSE 1]
Hash2 == [c \in Clients |-> c * 5 + 1]

Clauses(o) == {o.viol[i].clause : i \in DOMAIN o.viol}
Props(o) == {o.viol[i].prop : i \in DOMAIN o.viol}
NoViolation == obs.viol = <<>>
NoC02 == "C02" \notin Props(obs)
NoC04 == "C04" \notin Props(obs)
NoC05 == "C05" \notin Props(obs)
NoC06 == "C06" \notin Props(obs)
NoC11 == "C11" \notin Props(obs)

\* the mirror (metrics / health endpoint) never shows an ejected backend healthy
MirrorSafe == \A b \in SeqToSet(order) : (~flag[b] /\ age[b] <= Win) => ~mirror[b]

\* P's history variables grow with every request: the composition is explored for all
\* histories of at most MaxReq requests and MaxSteps steps (BFS depth)
Bound == obs.nreq <= 5 /\ TLCGet("level") <= 9

SView == <<strat, order, flag, age, pfail, rr, cw, infl, probe, mirror>>
View == <<SView, obs>>
EmitInit == act.a # "init" \/ PrintT("IN " \o ToJson([s |-> ToString(SView), cf |-> CfgRec]))
GenView == SView
Emit == PrintT("TR " \o ToJson([from |-> ToString(SView), act |-> act', to |-> ToString(SView')]))
=============================================================================
