CONSTANTS
  Threads = {1, 2}
  Ops <- OpsG
  W = 2
  MaxNow = 5
  Fixed = FALSE
INIT Init
NEXT Next
VIEW SView
INVARIANTS GaugeSafe
CHECK_DEADLOCK FALSE
