CONSTANTS
  Clients = {1, 2, 3, 4}
  CfgSet = {}
  CA0 = 6
INIT TraceInit
NEXT TraceNext
INVARIANT Report
POSTCONDITION Consumed
CHECK_DEADLOCK FALSE
