CONSTANTS
  Callers = {1, 2, 3}
  CfgSet = {}
  CbReenters = FALSE
  Outcomes = {"ok", "err", "panic"}
  TickWhileBusy = TRUE
INIT TraceInit
NEXT TraceNext
INVARIANT Report
POSTCONDITION Consumed
CHECK_DEADLOCK FALSE
