CONSTANTS
  Threads = {1, 2, 3}
  Ops <- OpsC
  W = 2
  MaxNow = 5
  Fixed = TRUE
INIT Init
NEXT Next
VIEW SView
INVARIANTS FlagSafe MirrorSafe
CHECK_DEADLOCK FALSE
