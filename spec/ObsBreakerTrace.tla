-------------------------- MODULE ObsBreakerTrace --------------------------
(* P run over events recorded from the real circuit breaker.  Deterministic *)
(* (one successor per trace line); every clause of BreakerObs that the      *)
(* recorded execution violates is printed as a "VIOL {json}" line; the      *)
(* POSTCONDITION makes sure the whole trace was consumed.                   *)
EXTENDS Integers, Sequences, TLC, Json, IOUtils

O == INSTANCE BreakerObs

Tr == ndJsonDeserialize(IOEnv.TRACE_FILE)

VARIABLES l, seg, obs

Init == /\ l = 1 /\ seg = "none"
        /\ obs = O!ObsInit([ft |-> 1, st |-> 1, mr |-> 1, iv |-> 1, to |-> 1])

Next ==
  /\ l <= Len(Tr)
  /\ l' = l + 1
  /\ LET e == Tr[l] IN
     /\ seg' = IF e.ev = "cfg" THEN e.id ELSE seg
     /\ obs' = CASE e.ev = "cfg"    -> O!ObsInit(e.cf)
                 [] e.ev = "tick"   -> O!ObsTick(obs, e.n)
                 [] e.ev = "call"   -> O!ObsCall(obs, e.c)
                 [] e.ev = "admit"  -> O!ObsAdmit(obs, e.c)
                 [] e.ev = "reject" -> O!ObsReject(obs, e.c, e.kind)
                 [] e.ev = "done"   -> O!ObsDone(obs, e.c, e.o, e.state)
                 [] e.ev = "probe"  -> O!ObsProbe(obs, e.res, e.state)
                 [] e.ev = "stuck"  -> O!ObsStuck(obs, e.c, e.at)
                 [] e.ev \in {"st", "drift", "skip"} -> [obs EXCEPT !.viol = <<>>]

Spec == Init /\ [][Next]_<<l, seg, obs>>

Report == obs.viol = <<>> \/ PrintT("VIOL " \o ToJson([line |-> l - 1, seg |-> seg, v |-> obs.viol]))

Consumed == TLCGet("stats").diameter - 1 = Len(Tr)
=============================================================================
