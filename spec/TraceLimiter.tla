---------------------------- MODULE TraceLimiter ----------------------------
(* Conformance of the real rate limiter to the mechanism model M            *)
(* (Limiter.tla), code -> specification: every Allow the harness issued is  *)
(* one Allow(c) of M and must give the logged verdict; every tick is one    *)
(* Tick of M (cleanup included).  M is deterministic, so the logged verdict *)
(* is simply compared; a mismatch marks the segment as diverged ("MDIV").   *)
(* Divergence is about the model's faithfulness, never a property verdict.  *)
EXTENDS Limiter, Json, IOUtils

Tr == ndJsonDeserialize(IOEnv.TRACE_FILE)
VARIABLES l, mode, seg, note
E == Tr[l]

TraceInit == /\ l = 1 /\ mode = "skip" /\ seg = "none" /\ note = <<>>
             /\ cf = [max |-> 1, r |-> 1] /\ bucket = [c \in Clients |-> Absent] /\ evs = <<>>

TReset == /\ E.ev = "cfg"
          /\ cf' = E.cf /\ bucket' = [c \in Clients |-> Absent] /\ evs' = <<>>
          /\ mode' = "ok" /\ seg' = E.id /\ note' = <<>> /\ l' = l + 1

RECURSIVE TickN(_, _)
TickN(b, n) == IF n = 0 THEN b
               ELSE TickN([c \in Clients |->
                             IF b[c].present /\ b[c].since >= CA THEN Absent
                             ELSE IF b[c].present THEN [b[c] EXCEPT !.since = Min(@ + 1, SCap)]
                             ELSE b[c]], n - 1)
TTick == /\ E.ev = "tick" /\ mode = "ok"
         /\ bucket' = TickN(bucket, E.n) /\ UNCHANGED <<cf, evs>>
         /\ UNCHANGED <<mode, seg>> /\ note' = <<>> /\ l' = l + 1

TAllowConform == /\ E.ev = "allow" /\ mode = "ok" /\ E.c \in Clients
                 /\ Allow(E.c)
                 /\ evs'[1].res = E.res
                 /\ UNCHANGED <<mode, seg>> /\ note' = <<>> /\ l' = l + 1
TAllowDiverge == /\ E.ev = "allow" /\ mode = "ok"
                 /\ ~ENABLED TAllowConform
                 /\ UNCHANGED vars /\ mode' = "div" /\ UNCHANGED seg /\ l' = l + 1
                 /\ note' = [line |-> l, seg |-> seg, c |-> E.c, logged |-> E.res,
                             model |-> IF E.c \in Clients THEN bucket[E.c] ELSE Absent]
Other == /\ \/ (mode = "ok" /\ E.ev \notin {"cfg", "tick", "allow"})
            \/ (mode # "ok" /\ E.ev # "cfg")
         /\ UNCHANGED vars /\ UNCHANGED <<mode, seg>> /\ note' = <<>> /\ l' = l + 1

TraceNext == l <= Len(Tr) /\ (TReset \/ TTick \/ TAllowConform \/ TAllowDiverge \/ Other)
Report == note = <<>> \/ PrintT("MDIV " \o ToJson(note))
Consumed == TLCGet("stats").diameter - 1 = Len(Tr)
=============================================================================
