--------------------------- MODULE GenAdminPolicy ---------------------------
EXTENDS AdminPolicy, Json
CONSTANT Space
VARIABLE c
Cases == IF Space = "ip" THEN IpCases \cup OrderCases ELSE AuthCases
Init == c \in Cases
Next == UNCHANGED c
SetToSeq(S) == LET RECURSIVE F(_) F(T) == IF T = {} THEN <<>> ELSE LET x == CHOOSE y \in T : TRUE IN <<x>> \o F(T \ {x}) IN F(S)
J(x) == [x EXCEPT !.allow = SetToSeq(x.allow), !.deny = SetToSeq(x.deny)]
Emit == PrintT("CASE " \o ToJson(J(c)))
=============================================================================
