--------------------------- MODULE ObsLinPoolTrace ---------------------------
EXTENDS LinPool, Json, IOUtils
Tr == ndJsonDeserialize(IOEnv.TRACE_FILE)
VARIABLES l, viol
Init0 == l = 1 /\ viol = <<>>
Next0 == /\ l <= Len(Tr) /\ l' = l + 1
         /\ viol' = Check(Tr[l].c, Tr[l].o)
Report == viol = <<>> \/ PrintT("VIOL " \o ToJson([line |-> l - 1, v |-> viol]))
Consumed == TLCGet("stats").diameter - 1 = Len(Tr)
=============================================================================
