------------------------------- MODULE MCWsPool -------------------------------
EXTENDS WsPool, Json
VARIABLES obs, act
O == INSTANCE WsPoolObs
MCInit == Init /\ obs = O!ObsInit(cf) /\ act = [a |-> "init"]
RECURSIVE Feed(_, _, _)
Feed(o, es, i) ==
  IF i > Len(es) THEN o
  ELSE LET e == es[i]
           o1 == CASE e.ev = "put" -> O!ObsPut(o, e.b, e.c, e.kept, st'[e.c] = "closed")
                   [] e.ev = "get" -> O!ObsGet(o, e.b, e.c, IF e.c = 0 THEN FALSE ELSE FALSE)
                   [] e.ev = "close" -> O!ObsClose(o, e.b, e.c)
                   [] e.ev = "tick" -> O!ObsTick(o, 1)
                   [] e.ev = "stats" -> O!ObsStats(o, e.b, e.idle)
                   [] e.ev = "shutdown" -> O!ObsShutdown(o, {c \in Conns : st'[c] # "closed"})
       IN Feed(o1, es, i + 1)
MCNext == /\ \/ \E b \in Backends, c \in Conns : (Put(b, c) /\ act' = [a |-> "put", b |-> b, c |-> c]) \/ (Close(b, c) /\ act' = [a |-> "close", b |-> b, c |-> c])
             \/ \E b \in Backends : (Get(b) /\ act' = [a |-> "get", b |-> b]) \/ (Stats(b) /\ act' = [a |-> "stats", b |-> b])
             \/ Tick /\ act' = [a |-> "tick"]
             \/ Shutdown /\ act' = [a |-> "shutdown"]
          /\ obs' = Feed(obs, evs', 1)
NoViolation == obs.viol = <<>>
CfgQuick == {[maxidle |-> m, to |-> t] : m \in 0..2, t \in 1..2}
CfgAll == {[maxidle |-> m, to |-> t] : m \in 0..3, t \in 1..2}
SView == <<cf, idle, st, phase>>
\* P's clock is the only unbounded part of the observer; it is dropped from the view together with
\* stamps older than the timeout, which cannot influence any clause
View == <<SView, [c \in DOMAIN obs.conn |-> [st |-> obs.conn[c].st, b |-> obs.conn[c].b,
                     age |-> IF obs.now - obs.conn[c].since > cf.to THEN cf.to + 1 ELSE obs.now - obs.conn[c].since]]>>
GenView == SView
EmitInit == act.a # "init" \/ PrintT("IN " \o ToJson([s |-> ToString(SView), cf |-> cf]))
Emit == PrintT("TR " \o ToJson([from |-> ToString(SView), act |-> act', to |-> ToString(SView')]))
=============================================================================
