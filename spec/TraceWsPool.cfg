CONSTANTS
  Backends = {1, 2}
  Conns = {1, 2, 3}
  CfgSet = {}
INIT TraceInit
NEXT TraceNext
INVARIANT Report
POSTCONDITION Consumed
CHECK_DEADLOCK FALSE
