----------------------------- MODULE MCHealthRace -----------------------------
EXTENDS HealthRace, Json
OpsA == [t \in Threads |-> IF t = 1 THEN "probe" ELSE IF t = 2 THEN "mark" ELSE "check"]
OpsB == [t \in Threads |-> IF t = 1 THEN "mark" ELSE "check"]
OpsC == [t \in Threads |-> IF t = 2 THEN "check" ELSE "mark"]
OpsG == [t \in Threads |-> "request"]
EmitInit == act.a # "init" \/ PrintT("IN " \o ToJson([s |-> ToString(SView), cf |-> [ops |-> Ops, w |-> W]]))
Emit == PrintT("TR " \o ToJson([from |-> ToString(SView), act |-> act', to |-> ToString(SView')]))
=============================================================================
