------------------------------- MODULE Limiter -------------------------------
(* M -- mechanism model of internal/ratelimiter/ratelimiter.go:              *)
(* Allow = getOrCreateBucket (new bucket: tokens = max) ; refillTokens       *)
(* (floor(elapsed/refill) tokens, capped, lastRefill := now only when at     *)
(* least one token was added) ; spend.  cleanup (every CP ticks, between two *)
(* driver ticks) deletes buckets whose lastRefill is at least CA ticks old,  *)
(* but never one that would not be full again by then (CA is raised to       *)
(* max*R).  One tick = 600 s in the harness: CP = 1, CA = 6.                 *)
EXTENDS Integers, Sequences, FiniteSets, TLC

CONSTANTS Clients, CfgSet, CA0
VARIABLES cf, bucket, evs
vars == <<cf, bucket, evs>>

MaxT == cf.max
R == cf.r
CA == IF MaxT * R > CA0 THEN MaxT * R ELSE CA0     \* cleanup cutoff
SCap == CA + 1

Absent == [present |-> FALSE, tokens |-> 0, since |-> 0]
Min(a, b) == IF a < b THEN a ELSE b

Init == /\ cf \in CfgSet
        /\ bucket = [c \in Clients |-> Absent]
        /\ evs = <<>>

Refill(b) == LET add == b.since \div R IN
             IF add > 0 THEN [b EXCEPT !.tokens = Min(MaxT, @ + add), !.since = 0] ELSE b

Allow(c) ==
  LET b0 == IF bucket[c].present THEN bucket[c] ELSE [present |-> TRUE, tokens |-> MaxT, since |-> 0]
      b1 == Refill(b0)
      ok == b1.tokens > 0
  IN /\ bucket' = [bucket EXCEPT ![c] = IF ok THEN [b1 EXCEPT !.tokens = @ - 1] ELSE b1]
     /\ evs' = <<[ev |-> "allow", c |-> c, res |-> ok]>>
     /\ UNCHANGED cf

\* time passes; the cleanup ticker fires between two driver ticks
Tick ==
  /\ bucket' = [c \in Clients |->
                  IF bucket[c].present /\ bucket[c].since >= CA THEN Absent
                  ELSE IF bucket[c].present THEN [bucket[c] EXCEPT !.since = Min(@ + 1, SCap)]
                  ELSE bucket[c]]
  /\ evs' = <<[ev |-> "tick"]>>
  /\ UNCHANGED cf

Next == (\E c \in Clients : Allow(c)) \/ Tick
Spec == Init /\ [][Next]_vars

TokensInRange == \A c \in Clients : bucket[c].tokens \in 0..MaxT
=============================================================================
