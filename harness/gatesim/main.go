// gatesim -- gate-scheduled replay of the fine-grained health / gauge model
// (spec/HealthRace.tla) on the real LoadBalancer: every thread of the model is
// a goroutine running one real operation (IsBackendHealthy,
// MarkBackendUnhealthy, a probe, a proxied request); the add-only vgate hooks
// park it before each lock acquisition / publish step, and each "step t" of a
// script releases thread t until its next gate, i.e. executes exactly one
// action of the model.  After every step the public views (admin listing,
// metrics mirror, gauges) are recorded for the TLA+ observer.
package main

import (
	"bufio"
	"context"
	"encoding/json"
	"fmt"
	"io"
	"net/http"
	"net/http/httptest"
	"os"
	"runtime"
	"runtime/debug"
	"strings"
	"time"

	"github.com/0xReLogic/Helios/internal/config"
	"github.com/0xReLogic/Helios/internal/loadbalancer"
	"github.com/0xReLogic/Helios/internal/logging"
	"github.com/0xReLogic/Helios/internal/metrics"
)

const tick = 2 * time.Second

type step struct {
	A string `json:"a"`
	T int    `json:"t"`
}
type script struct {
	ID string `json:"id"`
	Cf struct {
		Ops []string `json:"ops"`
		W   int      `json:"w"`
	} `json:"cf"`
	Steps []step `json:"steps"`
}

type thread struct {
	id      int
	op      string
	resume  chan struct{}
	parked  chan string
	started bool
	done    bool
	blocked bool // released, but waiting for a lock that a parked thread holds
	at      string
}

var (
	running *thread // the thread released last (informational)
	out     *bufio.Writer
)

func emit(v map[string]any) {
	b, _ := json.Marshal(v)
	out.Write(b)
	out.WriteByte('\n')
}

// goroutine id of the caller (threads are identified by the goroutine that runs their operation: after a
// parked lock holder is released, a thread that was blocked on that lock runs on its own)
func goid() int64 {
	var buf [64]byte
	n := runtime.Stack(buf[:], false)
	var id int64
	fmt.Sscanf(string(buf[:n]), "goroutine %d ", &id)
	return id
}

var byGoid = map[int64]*thread{}

func gate(point string) {
	t := byGoid[goid()]
	if t == nil {
		return
	}
	// a proxied request re-examines backend health on its way; those sections are not part of the
	// gauge protocol that request threads model
	if t.op == "request" && (strings.HasPrefix(point, "hb:") || strings.HasPrefix(point, "mark:")) {
		return
	}

	t.parked <- point
	<-t.resume
}

type rt struct{}

func (rt) RoundTrip(r *http.Request) (*http.Response, error) {
	gate("exchange")
	return &http.Response{StatusCode: 200, Status: "200 OK", Proto: "HTTP/1.1", ProtoMajor: 1, ProtoMinor: 1, Request: r,
		Header: http.Header{"Content-Type": []string{"text/plain"}}, Body: io.NopCloser(strings.NewReader("ok")), ContentLength: 2}, nil
}

func run(sc script) {
	c := &config.Config{}
	c.Server.Port = 8080
	c.Backends = []config.BackendConfig{{Name: "b1", Address: "http://b1.backend.test:80", Weight: 1}}
	c.LoadBalancer.Strategy = "round_robin"
	c.HealthChecks.Passive = config.PassiveHealthCheckConfig{Enabled: false, UnhealthyThreshold: 1, UnhealthyTimeout: 2*sc.Cf.W + 1}
	lb, err := loadbalancer.NewLoadBalancer(c)
	if err != nil {
		panic(err)
	}
	b := lb.VerifBackends()[0]
	b.ReverseProxy.Transport = rt{}
	window := time.Duration(2*sc.Cf.W+1) * time.Second
	emit(map[string]any{"ev": "cfg", "id": sc.ID, "w": sc.Cf.W})
	time.Sleep(tick) // the model's clock starts at 1
	threads := map[int]*thread{}
	body := func(t *thread) {
		switch t.op {
		case "check":
			lb.IsBackendHealthy(b)
		case "mark":
			lb.MarkBackendUnhealthy(b, window)
		case "probe":
			lb.VerifProbeOnce(b)
		case "request":
			req := httptest.NewRequest("GET", "http://helios.test/", nil)
			req = req.WithContext(context.WithValue(req.Context(), http.ServerContextKey, &http.Server{}))
			lb.ServeHTTP(httptest.NewRecorder(), req)
		}
	}
	wait := func(t *thread) string {
		select {
		case m := <-t.parked:
			return m
		case <-time.After(30 * time.Second):
			// every goroutine is blocked: this thread waits for a lock held by a thread that is
			// parked inside a critical section (a gate may sit inside one); it will continue when
			// that thread is released.  A real deadlock shows up at the end of the script.
			return "blocked"
		}
	}
	spawn := func(t *thread) string {
		t.started = true
		running = t
		reg := make(chan struct{})
		go func() {
			defer func() { recover(); t.parked <- "done" }()
			byGoid[goid()] = t
			close(reg)
			body(t)
		}()
		<-reg
		return wait(t)
	}
	snap := func(at string, t int) {
		lst := lb.ListBackends()
		m := lb.GetMetricsCollector().GetMetrics()
		bm := m.BackendMetrics["b1"]
		q := true
		for _, th := range threads {
			if !th.done {
				q = false
			}
		}
		emit(map[string]any{"ev": "snap", "t": t, "at": at, "flag": lst[0].Healthy, "mirror": bm != nil && bm.IsHealthy,
			"gauge": lst[0].ActiveConnections, "gmirror": func() int32 {
				if bm == nil {
					return 0
				}
				return bm.ActiveConnections
			}(), "quiescent": q})
	}
	for i, op := range sc.Cf.Ops {
		t := &thread{id: i + 1, op: op, resume: make(chan struct{}), parked: make(chan string, 1)}
		threads[t.id] = t
		if op != "request" {
			if at := spawn(t); at == "done" {
				t.done = true
			}
		}
	}
	for _, st := range sc.Steps {
		if st.A == "tick" {
			emit(map[string]any{"ev": "tick"})
			time.Sleep(tick)
			continue
		}
		t := threads[st.T]
		if t == nil || t.done {
			emit(map[string]any{"ev": "drift", "t": st.T})
			continue
		}
		var at string
		if !t.started {
			at = spawn(t)
		} else if t.blocked {
			at = wait(t)
		} else {
			running = t
			t.resume <- struct{}{}
			at = wait(t)
		}
		t.blocked = at == "blocked"
		if t.blocked {
			emit(map[string]any{"ev": "drift", "t": t.id, "why": "blocked on a lock held by a parked thread"})
			continue
		}
		if at == "done" {
			t.done = true
			if t.op == "mark" {
				emit(map[string]any{"ev": "marked", "t": t.id})
			}
		}
		t.at = at
		// threads that were blocked on a lock may have moved on to their next gate meanwhile
		for _, th := range threads {
			if th.blocked {
				select {
				case m := <-th.parked:
					th.blocked = false
					th.at = m
					if m == "done" {
						th.done = true
					}
				default:
				}
			}
		}
		// a thread parked at the metrics-side gate may be inside the backend's critical section: the
		// public views would block on that lock, so no snapshot is taken while one is parked there
		inside := false
		for _, th := range threads {
			if th.started && !th.done && th.at == "mx:conn" {
				inside = true
			}
		}
		if !inside {
			snap(at, t.id)
		}
	}
	// let parked threads finish (round robin: a blocked thread continues once the holder is released)
	for round := 0; round < 64; round++ {
		open := 0
		for _, t := range threads {
			if !t.started || t.done {
				continue
			}
			open++
			var at string
			if t.blocked {
				at = wait(t)
			} else {
				running = t
				t.resume <- struct{}{}
				at = wait(t)
			}
			t.blocked = at == "blocked"
			if at == "done" {
				t.done = true
			}
		}
		if open == 0 {
			break
		}
		if round == 63 {
			emit(map[string]any{"ev": "stuck", "t": 0})
			return
		}
	}
	snap("end", 0)
	byGoid = map[int64]*thread{}
	lb.Stop()
}

func main() {
	debug.SetGCPercent(-1)
	runtime.GOMAXPROCS(1)
	logging.Init(config.LoggingConfig{Level: "fatal", Format: "json"})
	loadbalancer.VerifGate = gate
	metrics.VerifGate = gate
	in, err := os.Open(os.Args[1])
	if err != nil {
		panic(err)
	}
	of, err := os.Create(os.Args[2])
	if err != nil {
		panic(err)
	}
	out = bufio.NewWriterSize(of, 1<<20)
	dec := json.NewDecoder(bufio.NewReaderSize(in, 1<<20))
	n := 0
	for dec.More() {
		var sc script
		if err := dec.Decode(&sc); err != nil {
			panic(err)
		}
		run(sc)
		n++
	}
	out.Flush()
	of.Close()
	os.WriteFile(os.Args[2]+".ok", []byte(fmt.Sprint(n)), 0o644)
}
