//go:build verif

// Overlaid only into the build of harness/gatesim (the health-race schedules): the one accessor that names
// unexported FUNCTIONS of the balancer, kept apart so that a rename there cannot break the other harnesses' builds.
package loadbalancer

import "net/http"

// VerifProbeOnce is checkBackendHealth with the network exchange replaced by a
// scheduling point: skip ejected backends, "send" the probe, apply a 200 result.
func (lb *LoadBalancer) VerifProbeOnce(b *Backend) {
	if !lb.IsBackendHealthy(b) {
		return
	}
	vgate("probe:exchange")
	lb.processHealthCheckResponse(b, &http.Response{StatusCode: http.StatusOK, Body: http.NoBody})
}

