//go:build verif

// Overlaid (go build -overlay) into /repo/internal/loadbalancer by the
// verification harnesses; not part of the repository.  Read-only accessors to
// the live objects the balancer built, so that harnesses drive the *real*
// wiring (breaker callback, limiter, pool) instead of re-creating it.
package loadbalancer

import (
	"github.com/0xReLogic/Helios/internal/circuitbreaker"
	"github.com/0xReLogic/Helios/internal/ratelimiter"
)

func (lb *LoadBalancer) VerifBreaker() *circuitbreaker.CircuitBreaker { return lb.circuitBreaker }
func (lb *LoadBalancer) VerifLimiter() ratelimiter.RateLimiter        { return lb.rateLimiter }
func (lb *LoadBalancer) VerifPool() *WebSocketPool                    { return lb.wsPool }
func (lb *LoadBalancer) VerifBackends() []*Backend {
	lb.mutex.RLock()
	defer lb.mutex.RUnlock()
	return lb.strategy.GetBackends()
}
func (lb *LoadBalancer) VerifPassiveCount(name string) int {
	lb.healthChecks.unhealthyBackendMu.RLock()
	defer lb.healthChecks.unhealthyBackendMu.RUnlock()
	return lb.healthChecks.unhealthyBackends[name]
}

// VerifJumpHash exposes the integer jump-hash step for the exhaustive sweep (C06).
func VerifJumpHash(key uint64, n int32) int32 { return jumpHash(key, n) }

// VerifCleanup runs one cleanup pass of the pool (what the 30 s ticker does).
func (p *WebSocketPool) VerifCleanup() { p.cleanup() }
