// distsim -- numeric / concurrent sweeps for C05, C06 and C09 that are cheap on
// the real code and out of TLC's reach as a state space (64-bit hash
// arithmetic, 2^32 keys, real parallelism).  It only PRODUCES records; the
// obligations are TLA+ (spec/DistObs.tla) and TLC judges every record.  For
// the exhaustive key sweep the harness evaluates the obligations itself to
// decide which records to emit: every suspect plus a seeded sample.
package main

import (
	"bufio"
	"encoding/json"
	"fmt"
	"io"
	"math/rand"
	"net/http"
	"net/http/httptest"
	"net/url"
	"os"
	"runtime"
	"sort"
	"strconv"
	"strings"
	"sync"
	"sync/atomic"
	"time"

	"github.com/0xReLogic/Helios/internal/circuitbreaker"
	"github.com/0xReLogic/Helios/internal/config"
	"github.com/0xReLogic/Helios/internal/loadbalancer"
	"github.com/0xReLogic/Helios/internal/ratelimiter"
)

var out *bufio.Writer

func emit(v map[string]any) {
	b, _ := json.Marshal(v)
	out.Write(b)
	out.WriteByte('\n')
}

func backends(ws []int) []*loadbalancer.Backend {
	res := []*loadbalancer.Backend{}
	for i, w := range ws {
		u, _ := url.Parse(fmt.Sprintf("http://b%d.backend.test", i+1))
		if w < 1 {
			w = 1 // AddBackend's weight floor (the strategy is driven directly here)
		}
		res = append(res, &loadbalancer.Backend{Name: fmt.Sprintf("b%d", i+1), URL: u, IsHealthy: true, Weight: w})
	}
	return res
}

// every weight vector in (0..maxW)^n: picks of a fresh weighted_round_robin pool
func wrrVectors(maxN, maxW int) {
	var rec func(prefix []int, n int)
	rec = func(prefix []int, n int) {
		if len(prefix) == n {
			s := loadbalancer.NewWeightedRoundRobinStrategy()
			sum := 0
			for _, b := range backends(prefix) {
				s.AddBackend(b)
				sum += b.Weight
			}
			picks := []int{}
			req := httptest.NewRequest("GET", "/", nil)
			for i := 0; i < 3*sum; i++ {
				b := s.NextBackend(req)
				idx := 0
				fmt.Sscanf(b.Name, "b%d", &idx)
				picks = append(picks, idx)
			}
			emit(map[string]any{"kind": "wrr", "w": append([]int{}, prefix...), "picks": picks})
			return
		}
		for w := 0; w <= maxW; w++ {
			rec(append(prefix, w), n)
		}
	}
	for n := 1; n <= maxN; n++ {
		rec(nil, n)
	}
}

// n*k picks by g concurrent pickers: exact counts
func rrConcurrent() {
	for n := 1; n <= 8; n++ {
		for _, g := range []int{2, 8, 64} {
			s := loadbalancer.NewRoundRobinStrategy()
			for _, b := range backends(make([]int, n)) {
				s.AddBackend(b)
			}
			k := 64 * g
			counts := make([]int64, n+1)
			var wg sync.WaitGroup
			per := n * k / g
			for w := 0; w < g; w++ {
				wg.Add(1)
				go func() {
					defer wg.Done()
					req := httptest.NewRequest("GET", "/", nil)
					for i := 0; i < per; i++ {
						b := s.NextBackend(req)
						idx := 0
						fmt.Sscanf(b.Name, "b%d", &idx)
						atomic.AddInt64(&counts[idx], 1)
					}
				}()
			}
			wg.Wait()
			c := []int64{}
			for i := 1; i <= n; i++ {
				c = append(c, counts[i])
			}
			emit(map[string]any{"kind": "rrcount", "n": n, "g": g, "total": per * g, "counts": c})
		}
	}
}

// affinity "regardless of concurrent traffic": many clients select in real parallel on the real
// balancer; every client must keep the backend it gets when served alone
func affinityConcurrent(tier string) {
	iters := 4000
	if tier == "thorough" {
		iters = 60000
	}
	for _, strat := range []string{"ip_hash", "ip_hash_consistent"} {
		for _, n := range []int{2, 3, 5, 8} {
			c := &config.Config{}
			c.Server.Port = 8080
			for i := 1; i <= n; i++ {
				c.Backends = append(c.Backends, config.BackendConfig{Name: fmt.Sprintf("b%d", i), Address: fmt.Sprintf("http://b%d.backend.test:80", i), Weight: 1})
			}
			c.LoadBalancer.Strategy = strat
			lb, err := loadbalancer.NewLoadBalancer(c)
			if err != nil {
				panic(err)
			}
			g := 16
			reqs := make([]*http.Request, g)
			solo := make([]int, g)
			for w := 0; w < g; w++ {
				reqs[w] = httptest.NewRequest("GET", "/", nil)
				reqs[w].RemoteAddr = fmt.Sprintf("10.%d.%d.%d:%d", w%3, w*7%251, 1+w*13%250, 30000+w)
				if w%4 == 3 {
					reqs[w].Header.Set("X-Forwarded-For", fmt.Sprintf("203.0.113.%d, 10.0.0.1", w))
				}
				fmt.Sscanf(lb.NextBackend(reqs[w]).Name, "b%d", &solo[w])
			}
			seen := make([][]int, g)
			var wg sync.WaitGroup
			start := make(chan struct{})
			for w := 0; w < g; w++ {
				wg.Add(1)
				go func(w int) {
					defer wg.Done()
					got := map[int]bool{}
					<-start
					for i := 0; i < iters; i++ {
						idx := 0
						if b := lb.NextBackend(reqs[w]); b != nil {
							fmt.Sscanf(b.Name, "b%d", &idx)
						}
						got[idx] = true
					}
					for k := range got {
						seen[w] = append(seen[w], k)
					}
					sort.Ints(seen[w])
				}(w)
			}
			close(start)
			wg.Wait()
			lb.Stop()
			for w := 0; w < g; w++ {
				emit(map[string]any{"kind": "affconc", "strategy": strat, "n": n, "client": reqs[w].RemoteAddr, "solo": solo[w], "seen": seen[w], "iters": iters})
			}
		}
	}
}

type countRT struct{ served []int64 }

func (c *countRT) RoundTrip(r *http.Request) (*http.Response, error) {
	idx := 0
	fmt.Sscanf(r.URL.Host, "b%d.", &idx)
	atomic.AddInt64(&c.served[idx], 1)
	code := 200
	if r.Header.Get("X-Want") == "500" {
		code = 500
	} else if r.Header.Get("X-Want") == "404" {
		code = 404
	}
	return &http.Response{StatusCode: code, Status: fmt.Sprintf("%d x", code), Proto: "HTTP/1.1", ProtoMajor: 1, ProtoMinor: 1, Request: r,
		Header: http.Header{"Content-Type": []string{"text/plain"}}, Body: io.NopCloser(strings.NewReader("ok")), ContentLength: 2}, nil
}

// accounting under real parallelism: many clients through the whole balancer at once; at quiescence the published
// totals must be exactly what was sent (global and per backend), the gauges zero
func metricsConcurrent(tier string) {
	per := 400
	if tier == "thorough" {
		per = 4000
	}
	for _, strat := range []string{"round_robin", "least_connections", "ip_hash"} {
		for _, g := range []int{8, 32} {
			n := 3
			c := &config.Config{}
			c.Server.Port = 8080
			for i := 1; i <= n; i++ {
				c.Backends = append(c.Backends, config.BackendConfig{Name: fmt.Sprintf("b%d", i), Address: fmt.Sprintf("http://b%d.backend.test:80", i), Weight: 1})
			}
			c.LoadBalancer.Strategy = strat
			lb, err := loadbalancer.NewLoadBalancer(c)
			if err != nil {
				panic(err)
			}
			rt := &countRT{served: make([]int64, n+1)}
			for _, b := range lb.VerifBackends() {
				b.ReverseProxy.Transport = rt
			}
			var wg sync.WaitGroup
			start := make(chan struct{})
			for w := 0; w < g; w++ {
				wg.Add(1)
				go func(w int) {
					defer wg.Done()
					<-start
					for i := 0; i < per; i++ {
						req := httptest.NewRequest("GET", "http://helios.test/", nil)
						req.RemoteAddr = fmt.Sprintf("10.2.%d.%d:4000", w, i%250)
						req.Header.Set("X-Want", []string{"200", "404", "500"}[i%3])
						lb.ServeHTTP(httptest.NewRecorder(), req)
					}
				}(w)
			}
			close(start)
			wg.Wait()
			m := lb.GetMetricsCollector().GetMetrics()
			bt, ba, served := []int64{}, []int64{}, []int64{}
			for i := 1; i <= n; i++ {
				bm := m.BackendMetrics[fmt.Sprintf("b%d", i)]
				if bm == nil {
					bt, ba = append(bt, -1), append(ba, -1)
				} else {
					bt, ba = append(bt, int64(bm.TotalRequests)), append(ba, int64(bm.ActiveConnections))
				}
				served = append(served, atomic.LoadInt64(&rt.served[i]))
			}
			emit(map[string]any{"kind": "metconc", "strategy": strat, "g": g, "sent": g * per, "total": m.TotalRequests, "ok": m.SuccessfulRequests,
				"failed": m.FailedRequests, "limited": m.RateLimitedRequests, "btotal": bt, "bactive": ba, "served": served})
			lb.Stop()
		}
	}
}

// recovery under real parallelism: the breaker of a real balancer is tripped, its timeout passes, then g clients send
// `per` requests each at once; the half-open budget and the success threshold are exactly the number of requests, so
// the breaker stays half-open until the very last success, every request must be admitted and answered 200, the breaker
// must be closed afterwards and the next request served.  "wedged": no request returned for 5 s.
func breakerStress(tier string) {
	per := 15000
	if tier == "thorough" {
		per = 100000
	}
	for _, g := range []int{4, 16} {
		total := g * per
		c := &config.Config{}
		c.Server.Port = 8080
		c.Backends = []config.BackendConfig{{Name: "b1", Address: "http://b1.backend.test:80", Weight: 1}, {Name: "b2", Address: "http://b2.backend.test:80", Weight: 1}}
		c.LoadBalancer.Strategy = "round_robin"
		c.CircuitBreaker = config.CircuitBreakerConfig{Enabled: true, MaxRequests: total, FailureThreshold: 1, SuccessThreshold: total, IntervalSeconds: 60, TimeoutSeconds: 1}
		lb, err := loadbalancer.NewLoadBalancer(c)
		if err != nil {
			panic(err)
		}
		rt := &countRT{served: make([]int64, 3)}
		for _, b := range lb.VerifBackends() {
			b.ReverseProxy.Transport = rt
		}
		one := func(want string) int {
			req := httptest.NewRequest("GET", "http://helios.test/", nil)
			req.RemoteAddr = "10.3.0.1:4000"
			req.Header.Set("X-Want", want)
			rec := httptest.NewRecorder()
			lb.ServeHTTP(rec, req)
			return rec.Code
		}
		tripped := one("500")
		blocked := one("200") // open: 503, no backend
		time.Sleep(1200 * time.Millisecond)
		var returned, ok200 int64
		var wg sync.WaitGroup
		start := make(chan struct{})
		for w := 0; w < g; w++ {
			wg.Add(1)
			go func() {
				defer wg.Done()
				<-start
				for i := 0; i < per; i++ {
					if one("200") == 200 {
						atomic.AddInt64(&ok200, 1)
					}
					atomic.AddInt64(&returned, 1)
				}
			}()
		}
		close(start)
		fin := make(chan struct{})
		go func() { wg.Wait(); close(fin) }()
		wedged := false
		last, lastAt := int64(-1), time.Now()
	wait:
		for {
			select {
			case <-fin:
				break wait
			case <-time.After(200 * time.Millisecond):
				if r := atomic.LoadInt64(&returned); r != last {
					last, lastAt = r, time.Now()
				} else if time.Since(lastAt) > 5*time.Second {
					wedged = true
					break wait
				}
			}
		}
		state, after := "unknown", -1
		if !wedged {
			state = map[circuitbreaker.State]string{circuitbreaker.StateClosed: "closed", circuitbreaker.StateOpen: "open", circuitbreaker.StateHalfOpen: "half"}[lb.VerifBreaker().State()]
			after = one("200")
			lb.Stop()
		}
		emit(map[string]any{"kind": "cbstress", "g": g, "total": total, "tripped": tripped, "blocked": blocked, "returned": atomic.LoadInt64(&returned),
			"ok": atomic.LoadInt64(&ok200), "wedged": wedged, "state": state, "after": after})
	}
}

// jump hash: b(k,1)=0, b(k,n)<n, b(k,n+1) in {b(k,n), n} for keys of the sweep and n = 1..maxN
func jumpSweep(full bool, maxN int, seed int64) {
	workers := runtime.GOMAXPROCS(0)
	var total, suspects int64
	stride := uint64(1)
	if !full {
		stride = 251 // 2^32/251 ~ 1.7e7 keys, all residues mod small numbers
	}
	var mu sync.Mutex
	var wg sync.WaitGroup
	span := (uint64(1) << 32) / uint64(workers)
	for w := 0; w < workers; w++ {
		wg.Add(1)
		go func(w int) {
			defer wg.Done()
			lo := uint64(w) * span
			hi := lo + span
			if w == workers-1 {
				hi = uint64(1) << 32
			}
			rnd := rand.New(rand.NewSource(seed + int64(w)))
			var cnt, sus int64
			for k := lo + uint64(w)%stride; k < hi; k += stride {
				prev := int32(0)
				bad := false
				for n := int32(1); n <= int32(maxN); n++ {
					b := loadbalancer.VerifJumpHash(k, n)
					if b < 0 || b >= n || (n == 1 && b != 0) || (n > 1 && b != prev && b != n-1) {
						bad = true
					}
					prev = b
				}
				cnt++
				if bad || rnd.Intn(4_000_000/int(stride)+1) == 0 {
					seq := []int32{}
					for n := int32(1); n <= int32(maxN); n++ {
						seq = append(seq, loadbalancer.VerifJumpHash(k, n))
					}
					mu.Lock()
					emit(map[string]any{"kind": "jump", "k": strconv.FormatUint(k, 10), "seq": seq})
					mu.Unlock()
					if bad {
						sus++
					}
				}
			}
			atomic.AddInt64(&total, cnt)
			atomic.AddInt64(&suspects, sus)
		}(w)
	}
	wg.Wait()
	emit(map[string]any{"kind": "jumpsummary", "keys": total, "suspects": suspects, "maxn": maxN, "full": full})
}

// address strings: the choice is a valid backend of the pool and depends only on the attributed address
func addressStrings() {
	addrs := []map[string]string{
		{"remote": "10.1.2.3:4000"}, {"remote": "10.1.2.3:4001"}, {"remote": "[2001:db8::1]:443"}, {"remote": "[::ffff:10.1.2.3]:80"},
		{"remote": "noport"}, {"remote": ""}, {"remote": "10.1.2.3:4000", "xff": "203.0.113.7"}, {"remote": "10.9.9.9:1", "xff": "203.0.113.7"},
		{"remote": "10.1.2.3:4000", "xff": "203.0.113.7, 10.0.0.1, 10.0.0.2"}, {"remote": "10.1.2.3:4000", "xff": " , "},
		{"remote": "10.1.2.3:4000", "xff": "not an ip é世"}, {"remote": "10.1.2.3:4000", "xri": "198.51.100.9"},
		{"remote": "10.1.2.3:4000", "xri": "::1"}, {"remote": "10.1.2.3:4000", "xff": "203.0.113.7", "xri": "198.51.100.9"},
		{"remote": "10.1.2.3:4000", "xff": string(make([]byte, 0)) + "a,b,c,d,e,f,g,h"}, {"remote": "10.1.2.3:4000", "xff": "2001:db8::7"},
	}
	for _, strat := range []string{"ip_hash", "ip_hash_consistent"} {
		for n := 1; n <= 6; n++ {
			var s loadbalancer.Strategy
			if strat == "ip_hash" {
				s = loadbalancer.NewIPHashStrategy()
			} else {
				s = loadbalancer.NewIPHashConsistentStrategy()
			}
			for _, b := range backends(make([]int, n)) {
				s.AddBackend(b)
			}
			for ai, a := range addrs {
				picks := []int{}
				for rep := 0; rep < 3; rep++ {
					req := httptest.NewRequest([]string{"GET", "POST", "HEAD"}[rep], []string{"/", "/x/y?z=1", "/other"}[rep], nil)
					req.RemoteAddr = a["remote"]
					if v, ok := a["xff"]; ok {
						req.Header.Set("X-Forwarded-For", v)
					}
					if v, ok := a["xri"]; ok {
						req.Header.Set("X-Real-IP", v)
					}
					req.Header.Set("User-Agent", fmt.Sprint("ua", rep))
					b := s.NextBackend(req)
					idx := 0
					if b != nil {
						fmt.Sscanf(b.Name, "b%d", &idx)
					}
					picks = append(picks, idx)
				}
				emit(map[string]any{"kind": "addr", "strategy": strat, "n": n, "addr": ai, "picks": picks})
			}
			// one client address, many connections: the source port is not part of the client's address
			for hi, host := range []string{"10.1.2.3", "[2001:db8::1]", "[fe80::1%eth0]", "[::ffff:10.1.2.3]", "[fe80::a%25en0]"} {
				picks := []int{}
				for port := 40000; port < 40048; port++ {
					req := httptest.NewRequest("GET", "/", nil)
					req.RemoteAddr = fmt.Sprintf("%s:%d", host, port)
					b := s.NextBackend(req)
					idx := 0
					if b != nil {
						fmt.Sscanf(b.Name, "b%d", &idx)
					}
					picks = append(picks, idx)
				}
				emit(map[string]any{"kind": "addr", "strategy": strat, "n": n, "addr": 100 + hi, "picks": picks})
			}
		}
	}
}

// g goroutines hit one client's bucket at one instant (refill far away): exactly max admitted in total
func limiterConcurrent() {
	for _, max := range []int{1, 2, 5, 50} {
		for _, g := range []int{2, 8, 64} {
			rl := ratelimiter.NewTokenBucketRateLimiter(max, time.Hour)
			var admitted int64
			var wg sync.WaitGroup
			start := make(chan struct{})
			for w := 0; w < g; w++ {
				wg.Add(1)
				go func() {
					defer wg.Done()
					<-start
					for i := 0; i < 40; i++ {
						if rl.Allow("203.0.113.50") {
							atomic.AddInt64(&admitted, 1)
						}
					}
				}()
			}
			close(start)
			wg.Wait()
			other := rl.Allow("203.0.113.51") // a different client is unaffected
			emit(map[string]any{"kind": "limconc", "max": max, "g": g, "calls": g * 40, "admitted": admitted, "other": other})
		}
	}
}

var _ = http.StatusOK

func main() {
	of, err := os.Create(os.Args[1])
	if err != nil {
		panic(err)
	}
	out = bufio.NewWriterSize(of, 1<<20)
	tier := os.Args[2]
	seed, _ := strconv.ParseInt(os.Args[3], 10, 64)
	for _, what := range os.Args[4:] {
		switch what {
		case "wrr":
			if tier == "thorough" {
				wrrVectors(4, 6)
			} else {
				wrrVectors(3, 6)
			}
		case "rrcount":
			rrConcurrent()
		case "jump":
			jumpSweep(tier == "thorough", 16, seed)
		case "addr":
			addressStrings()
		case "limconc":
			limiterConcurrent()
		case "affconc":
			affinityConcurrent(tier)
		case "metconc":
			metricsConcurrent(tier)
		case "cbstress":
			breakerStress(tier)
		}
	}
	out.Flush()
	of.Close()
}
