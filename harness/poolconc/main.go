// poolconc -- concurrent histories on the real WebSocketPool for C20's
// linearizability clause (spec/LinPool.tla).
//
// A case gives the regime, max_idle and one operation sequence per actor:
//
//	P put a new connection      G get (and hold what comes back)
//	R put back what I hold      X Close(what I hold) through the pool
//	C cleanup                   S shutdown
//
// Actors run in real parallel; every operation is recorded with invocation and
// return instants from one atomic counter and with its result.  After all actors
// are done the harness issues one more Shutdown and records which mock
// connections are closed.  Regime "stale": the pool (idle_timeout 150 ms) is
// primed with connections and the harness sleeps 250 ms before the run, so those
// are certainly stale.  Nothing is judged here.
package main

import (
	"bufio"
	"encoding/json"
	"net"
	"os"
	"runtime"
	"sort"
	"strconv"
	"sync"
	"sync/atomic"
	"time"

	"github.com/0xReLogic/Helios/internal/config"
	"github.com/0xReLogic/Helios/internal/loadbalancer"
	"github.com/0xReLogic/Helios/internal/logging"
)

type pcase struct {
	Regime  string     `json:"regime"`
	MaxIdle int        `json:"maxidle"`
	Actors  [][]string `json:"actors"`
}

// mock connection: only Close matters to the pool
type mconn struct {
	id     int
	closed int32
}

func (m *mconn) Read(b []byte) (int, error)  { return 0, net.ErrClosed }
func (m *mconn) Write(b []byte) (int, error) { return len(b), nil }
func (m *mconn) Close() error {
	// a close that takes a moment: widens whatever window the pool leaves open around it
	for i := 0; i < 20; i++ {
		runtime.Gosched()
	}
	atomic.StoreInt32(&m.closed, 1)
	return nil
}
func (m *mconn) LocalAddr() net.Addr                { return &net.TCPAddr{} }
func (m *mconn) RemoteAddr() net.Addr               { return &net.TCPAddr{} }
func (m *mconn) SetDeadline(t time.Time) error      { return nil }
func (m *mconn) SetReadDeadline(t time.Time) error  { return nil }
func (m *mconn) SetWriteDeadline(t time.Time) error { return nil }

type op struct {
	K     string `json:"k"`
	C     int    `json:"c"`
	Kept  bool   `json:"kept"`
	Inv   int64  `json:"inv"`
	Ret   int64  `json:"ret"`
	Actor int    `json:"actor"`
}

type world struct {
	c      pcase
	pool   *loadbalancer.WebSocketPool
	conns  map[int]*mconn
	cmu    sync.Mutex
	primed []int
	clock  int64
}

func (w *world) newConn(id int) *mconn {
	m := &mconn{id: id}
	w.cmu.Lock()
	w.conns[id] = m
	w.cmu.Unlock()
	return m
}

func prepare(c pcase) *world {
	to := time.Hour
	if c.Regime == "stale" {
		to = 150 * time.Millisecond
	}
	w := &world{c: c, pool: loadbalancer.NewWebSocketPool(c.MaxIdle, 0, to), conns: map[int]*mconn{}, primed: []int{}}
	if c.Regime == "stale" {
		for i := 1; i <= c.MaxIdle; i++ {
			if w.pool.Put("b1", w.newConn(i)) {
				w.primed = append(w.primed, i)
			}
		}
	}
	return w
}

func spin(n int) {
	for i := 0; i < n; i++ {
		runtime.Gosched()
	}
}

func (w *world) run(rep int) map[string]any {
	var mu sync.Mutex
	ops := []op{}
	rec := func(o op) {
		mu.Lock()
		ops = append(ops, o)
		mu.Unlock()
	}
	tick := func() int64 { return atomic.AddInt64(&w.clock, 1) }
	var wg sync.WaitGroup
	start := make(chan struct{})
	for a, seq := range w.c.Actors {
		wg.Add(1)
		go func(a int, seq []string) {
			defer wg.Done()
			var held *mconn
			next := 100*(a+1) + 1
			<-start
			spin((rep * (a + 2)) % 5)
			for _, name := range seq {
				o := op{Actor: a + 1}
				switch name {
				case "P":
					m := w.newConn(next)
					next++
					o.K, o.C = "put", m.id
					o.Inv = tick()
					o.Kept = w.pool.Put("b1", m)
					o.Ret = tick()
				case "G":
					if held != nil {
						// one connection at a time per actor: give the old one up first (outside the pool)
						o.K = "nop"
						o.Inv = tick()
						o.Ret = tick()
						break
					}
					o.K = "get"
					o.Inv = tick()
					c := w.pool.Get("b1")
					o.Ret = tick()
					if c != nil {
						held = c.(*mconn)
						o.C = held.id
					}
				case "R":
					if held == nil {
						o.K = "nop"
						o.Inv = tick()
						o.Ret = tick()
						break
					}
					o.K, o.C = "put", held.id
					o.Inv = tick()
					o.Kept = w.pool.Put("b1", held)
					o.Ret = tick()
					held = nil
				case "X":
					if held == nil {
						o.K = "nop"
						o.Inv = tick()
						o.Ret = tick()
						break
					}
					o.K, o.C = "close", held.id
					o.Inv = tick()
					w.pool.Close("b1", held)
					o.Ret = tick()
					held = nil
				case "C":
					o.K = "cleanup"
					o.Inv = tick()
					w.pool.VerifCleanup()
					o.Ret = tick()
				case "S":
					o.K = "shutdown"
					o.Inv = tick()
					w.pool.Shutdown()
					o.Ret = tick()
				}
				rec(o)
				spin((rep + a) % 3)
			}
		}(a, seq)
	}
	close(start)
	// every operation is an in-memory call: one that has not returned after 20 s never will
	fin := make(chan struct{})
	go func() { wg.Wait(); close(fin) }()
	select {
	case <-fin:
	case <-time.After(20 * time.Second):
		atomic.StoreInt32(&wedged, 1)
		mu.Lock()
		part := append([]op{}, ops...)
		mu.Unlock()
		return map[string]any{"regime": w.c.Regime, "maxidle": w.c.MaxIdle, "primed": w.primed, "ops": part, "closed": []int{}, "stuck": true}
	}
	// what every linearization must end with
	fo := op{K: "shutdown", Actor: 0, Inv: tick()}
	w.pool.Shutdown()
	fo.Ret = tick()
	ops = append(ops, fo)
	closed := []int{}
	for id, m := range w.conns {
		if atomic.LoadInt32(&m.closed) == 1 {
			closed = append(closed, id)
		}
	}
	sort.Ints(closed)
	// canonical form: instants -> ranks, operations by invocation
	ts := []int64{}
	for _, o := range ops {
		ts = append(ts, o.Inv, o.Ret)
	}
	sort.Slice(ts, func(i, j int) bool { return ts[i] < ts[j] })
	rank := map[int64]int64{}
	for i, t := range ts {
		rank[t] = int64(i + 1)
	}
	for i := range ops {
		ops[i].Inv, ops[i].Ret = rank[ops[i].Inv], rank[ops[i].Ret]
	}
	sort.Slice(ops, func(i, j int) bool { return ops[i].Inv < ops[j].Inv })
	return map[string]any{"regime": w.c.Regime, "maxidle": w.c.MaxIdle, "primed": w.primed, "ops": ops, "closed": closed, "stuck": false}
}

var wedged int32

func main() {
	casesPath, outPath := os.Args[1], os.Args[2]
	reps := 4
	if len(os.Args) > 3 {
		reps, _ = strconv.Atoi(os.Args[3])
	}
	logging.Init(config.LoggingConfig{Level: "fatal", Format: "json"})
	f, err := os.Open(casesPath)
	if err != nil {
		panic(err)
	}
	var raw []json.RawMessage
	sc := bufio.NewScanner(f)
	sc.Buffer(make([]byte, 1<<20), 1<<26)
	for sc.Scan() {
		raw = append(raw, append([]byte{}, sc.Bytes()...))
	}
	out, _ := os.Create(outPath)
	bw := bufio.NewWriterSize(out, 1<<20)
	seen := map[string]bool{}
	var histories, distinct int64
	t0 := time.Now()
	// batches: all pools of a batch are built and primed first, one sleep makes the primed connections stale
	type job struct {
		idx, rep int
		w        *world
	}
	const batch = 3000
	jobs := []job{}
	flush := func() {
		time.Sleep(250 * time.Millisecond)
		res := make([][]byte, len(jobs))
		var wg sync.WaitGroup
		sem := make(chan struct{}, 4)
		for j := range jobs {
			wg.Add(1)
			sem <- struct{}{}
			go func(j int) {
				defer wg.Done()
				defer func() { <-sem }()
				if atomic.LoadInt32(&wedged) == 1 {
					return
				}
				b, _ := json.Marshal(jobs[j].w.run(jobs[j].rep))
				res[j] = b
			}(j)
		}
		wg.Wait()
		for j := range jobs {
			if res[j] == nil {
				continue
			}
			key := string(raw[jobs[j].idx]) + "|" + string(res[j])
			histories++
			if !seen[key] {
				seen[key] = true
				distinct++
				line, _ := json.Marshal(map[string]any{"c": json.RawMessage(raw[jobs[j].idx]), "o": json.RawMessage(res[j])})
				bw.Write(line)
				bw.WriteByte('\n')
			}
		}
		jobs = jobs[:0]
	}
	for i := range raw {
		if atomic.LoadInt32(&wedged) == 1 {
			break
		}
		var c pcase
		json.Unmarshal(raw[i], &c)
		for rep := 0; rep < reps; rep++ {
			jobs = append(jobs, job{i, rep, prepare(c)})
			if len(jobs) >= batch {
				flush()
			}
		}
	}
	if len(jobs) > 0 {
		flush()
	}
	bw.Flush()
	out.Close()
	st, _ := json.Marshal(map[string]any{"histories": histories, "distinct": distinct, "seconds": time.Since(t0).Seconds(), "stuck": atomic.LoadInt32(&wedged)})
	os.WriteFile(outPath+".ok", st, 0o644)
}
