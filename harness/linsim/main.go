// linsim -- concurrent histories for C11's linearizability clause.
//
// For every abstract case (spec/Lin.tla: initial strategy, one operation
// sequence per admin actor, number of clients) the harness builds a real
// LoadBalancer + admin mux over real loopback backends and runs the actors and
// the clients in real parallel (no virtual time, no gates).  Every operation is
// recorded with an invocation and a return instant taken from one atomic
// counter, with its status and -- for listings and requests -- what came back.
// Each case is repeated with different start skews; histories are reduced to a
// canonical form (instants replaced by their ranks) and written once each.
// Nothing is judged here: TLC searches for a linearization (Lin!Check).
package main

import (
	"bufio"
	"bytes"
	"encoding/json"
	"fmt"
	"io"
	"net"
	"net/http"
	"net/http/httptest"
	"os"
	"runtime"
	"sort"
	"strconv"
	"sync"
	"sync/atomic"
	"time"

	"github.com/0xReLogic/Helios/internal/adminapi"
	"github.com/0xReLogic/Helios/internal/config"
	"github.com/0xReLogic/Helios/internal/loadbalancer"
	"github.com/0xReLogic/Helios/internal/logging"
)

type lcase struct {
	Strategy string     `json:"strategy"`
	Actors   [][]string `json:"actors"`
	Clients  int        `json:"clients"`
}

type item struct {
	Name    string `json:"name"`
	Addr    string `json:"addr"`
	W       int    `json:"w"`
	Healthy bool   `json:"healthy"`
}

type op struct {
	K      string `json:"k"`
	Name   string `json:"name"`
	Addr   string `json:"addr"`
	W      int    `json:"w"`
	S      string `json:"s"`
	Bad    bool   `json:"bad"`
	Status int    `json:"status"`
	Items  []item `json:"items"`
	Served string `json:"served"`
	Inv    int64  `json:"inv"`
	Ret    int64  `json:"ret"`
	Actor  int    `json:"actor"`
}

var backendAddr [3]string // loopback servers: b1, b2, b3 (b4 is an alias of b1's address)

func startBackends() {
	for i := range backendAddr {
		ln, err := net.Listen("tcp", "127.0.0.1:0")
		if err != nil {
			panic(err)
		}
		addr := "http://" + ln.Addr().String()
		backendAddr[i] = addr
		srv := &http.Server{Handler: http.HandlerFunc(func(w http.ResponseWriter, r *http.Request) {
			w.Header().Set("X-Served-By", addr)
			w.Header().Set("Connection", "close")
			w.Write([]byte("ok"))
		})}
		go srv.Serve(ln)
	}
}

func concretise(name string) op {
	switch name {
	case "add3":
		return op{K: "add", Name: "b3", Addr: backendAddr[2], W: 2}
	case "add2dup":
		return op{K: "add", Name: "b2", Addr: backendAddr[1], W: 1}
	case "add4alias":
		return op{K: "add", Name: "b4", Addr: backendAddr[0], W: 3}
	case "add_bad":
		return op{K: "add", Name: "b5", Addr: "http://[::1", W: 1, Bad: true}
	case "rm1":
		return op{K: "remove", Name: "b1"}
	case "rm2":
		return op{K: "remove", Name: "b2"}
	case "rm3":
		return op{K: "remove", Name: "b3"}
	case "st_lc":
		return op{K: "strategy", S: "least_connections"}
	case "st_iphc":
		return op{K: "strategy", S: "ip_hash_consistent"}
	case "st_wrr":
		return op{K: "strategy", S: "weighted_round_robin"}
	case "st_bad":
		return op{K: "strategy", S: "fastest"}
	case "list":
		return op{K: "list"}
	}
	panic("unknown abstract operation " + name)
}

type world struct {
	lb    *loadbalancer.LoadBalancer
	admin http.Handler
	clock int64
}

func (w *world) tick() int64 { return atomic.AddInt64(&w.clock, 1) }

func (w *world) do(o op, actor int) op {
	o.Actor = actor
	o.Items = []item{}
	var req *http.Request
	switch o.K {
	case "add":
		b, _ := json.Marshal(map[string]any{"name": o.Name, "address": o.Addr, "weight": o.W})
		req = httptest.NewRequest("POST", "/v1/backends/add", bytes.NewReader(b))
	case "remove":
		b, _ := json.Marshal(map[string]any{"name": o.Name})
		req = httptest.NewRequest("POST", "/v1/backends/remove", bytes.NewReader(b))
	case "strategy":
		b, _ := json.Marshal(map[string]any{"strategy": o.S})
		req = httptest.NewRequest("POST", "/v1/strategy", bytes.NewReader(b))
	case "list":
		req = httptest.NewRequest("GET", "/v1/backends", nil)
	case "req":
		req = httptest.NewRequest("GET", "http://helios.test/x", nil)
		req.RemoteAddr = fmt.Sprintf("10.0.0.%d:40000", actor)
	}
	if o.K != "req" {
		req.RemoteAddr = "127.0.0.1:50000"
	}
	rec := httptest.NewRecorder()
	o.Inv = w.tick()
	if o.K == "req" {
		func() {
			defer func() {
				if r := recover(); r != nil {
					rec.Code = -1
				}
			}()
			w.lb.ServeHTTP(rec, req)
		}()
	} else {
		w.admin.ServeHTTP(rec, req)
	}
	o.Ret = w.tick()
	o.Status = rec.Code
	if o.K == "list" {
		var l []struct {
			Name    string `json:"name"`
			Address string `json:"address"`
			Healthy bool   `json:"healthy"`
			Weight  int    `json:"weight"`
		}
		if err := json.Unmarshal(rec.Body.Bytes(), &l); err != nil {
			o.Status = -2
		}
		for _, x := range l {
			o.Items = append(o.Items, item{Name: x.Name, Addr: x.Address, W: x.Weight, Healthy: x.Healthy})
		}
	}
	if o.K == "req" {
		o.Served = rec.Header().Get("X-Served-By")
		io.Copy(io.Discard, rec.Body)
	}
	return o
}

func spin(n int) {
	for i := 0; i < n; i++ {
		runtime.Gosched()
	}
}

// one history of case c; skew varies the relative start of the actors
func runHistory(c lcase, rep int) map[string]any {
	cfg := &config.Config{}
	cfg.Server.Port = 8080
	cfg.Server.Timeouts = config.TimeoutConfig{BackendDial: 2, BackendRead: 5, BackendIdle: 1}
	init := []item{{Name: "b1", Addr: backendAddr[0], W: 1, Healthy: true}, {Name: "b2", Addr: backendAddr[1], W: 2, Healthy: true}}
	for _, b := range init {
		cfg.Backends = append(cfg.Backends, config.BackendConfig{Name: b.Name, Address: b.Addr, Weight: b.W})
	}
	cfg.LoadBalancer.Strategy = c.Strategy
	cfg.AdminAPI.Enabled = true
	lb, err := loadbalancer.NewLoadBalancer(cfg)
	if err != nil {
		return map[string]any{"error": err.Error()}
	}
	defer func() {
		if atomic.LoadInt32(&wedged) == 0 {
			lb.Stop()
		}
	}()
	w := &world{lb: lb}
	w.admin = adminapi.NewMux(lb, cfg, lb.GetMetricsCollector())
	var mu sync.Mutex
	ops := []op{}
	var wg sync.WaitGroup
	start := make(chan struct{})
	nact := len(c.Actors)
	for a, seq := range c.Actors {
		wg.Add(1)
		go func(a int, seq []string) {
			defer wg.Done()
			<-start
			spin((rep * (a + 1)) % 7)
			for _, name := range seq {
				o := w.do(concretise(name), a+1)
				mu.Lock()
				ops = append(ops, o)
				mu.Unlock()
				spin((rep + a) % 3)
			}
		}(a, seq)
	}
	for cl := 0; cl < c.Clients; cl++ {
		wg.Add(1)
		go func(cl int) {
			defer wg.Done()
			<-start
			spin((rep * (cl + 2)) % 5)
			for i := 0; i < 2; i++ {
				o := w.do(op{K: "req"}, nact+1+cl)
				mu.Lock()
				ops = append(ops, o)
				mu.Unlock()
			}
		}(cl)
	}
	close(start)
	// the operations are a handful of in-memory calls and loopback exchanges: one that has not returned after
	// 20 s never will (the balancer is wedged); the history is reported as stuck and the run ends
	fin := make(chan struct{})
	go func() { wg.Wait(); close(fin) }()
	select {
	case <-fin:
	case <-time.After(20 * time.Second):
		atomic.StoreInt32(&wedged, 1)
		mu.Lock()
		part := append([]op{}, ops...)
		mu.Unlock()
		for i := range part {
			if part[i].Items == nil {
				part[i].Items = []item{}
			}
		}
		return map[string]any{"init": init, "ops": part, "stuck": true}
	}
	// the state every linearization must end in
	ops = append(ops, w.do(op{K: "list"}, 0))
	// canonical form: instants -> ranks, operations ordered by invocation
	ts := []int64{}
	for _, o := range ops {
		ts = append(ts, o.Inv, o.Ret)
	}
	sort.Slice(ts, func(i, j int) bool { return ts[i] < ts[j] })
	rank := map[int64]int64{}
	for i, t := range ts {
		rank[t] = int64(i + 1)
	}
	for i := range ops {
		ops[i].Inv, ops[i].Ret = rank[ops[i].Inv], rank[ops[i].Ret]
	}
	sort.Slice(ops, func(i, j int) bool { return ops[i].Inv < ops[j].Inv })
	return map[string]any{"init": init, "ops": ops, "stuck": false}
}

var wedged int32

func main() {
	casesPath, outPath := os.Args[1], os.Args[2]
	reps := 4
	if len(os.Args) > 3 {
		reps, _ = strconv.Atoi(os.Args[3])
	}
	logging.Init(config.LoggingConfig{Level: "fatal", Format: "json"})
	startBackends()
	f, err := os.Open(casesPath)
	if err != nil {
		panic(err)
	}
	var cs []json.RawMessage
	sc := bufio.NewScanner(f)
	sc.Buffer(make([]byte, 1<<20), 1<<26)
	for sc.Scan() {
		cs = append(cs, append([]byte{}, sc.Bytes()...))
	}
	out, _ := os.Create(outPath)
	bw := bufio.NewWriterSize(out, 1<<20)
	var omu sync.Mutex
	seen := map[string]bool{}
	var histories, distinct int64
	par := runtime.GOMAXPROCS(0) / 3
	if par < 1 {
		par = 1
	}
	idx := int64(-1)
	var wg sync.WaitGroup
	t0 := time.Now()
	for p := 0; p < par; p++ {
		wg.Add(1)
		go func() {
			defer wg.Done()
			for {
				i := atomic.AddInt64(&idx, 1)
				if i >= int64(len(cs)) || atomic.LoadInt32(&wedged) == 1 {
					return
				}
				var c lcase
				json.Unmarshal(cs[i], &c)
				for rep := 0; rep < reps && atomic.LoadInt32(&wedged) == 0; rep++ {
					o := runHistory(c, rep)
					ob, _ := json.Marshal(o)
					key := string(cs[i]) + "|" + string(ob)
					omu.Lock()
					histories++
					if !seen[key] {
						seen[key] = true
						distinct++
						line, _ := json.Marshal(map[string]any{"c": json.RawMessage(cs[i]), "o": json.RawMessage(ob)})
						bw.Write(line)
						bw.WriteByte('\n')
					}
					omu.Unlock()
				}
			}
		}()
	}
	wg.Wait()
	bw.Flush()
	out.Close()
	st, _ := json.Marshal(map[string]any{"histories": histories, "distinct": distinct, "seconds": time.Since(t0).Seconds(), "stuck": atomic.LoadInt32(&wedged)})
	os.WriteFile(outPath+".ok", st, 0o644)
}
