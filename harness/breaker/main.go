// Replay harness for the circuit breaker (H1 + H4 of DESIGN.md).
//
// Reads scripts (ndjson) generated from the TLA+ mechanism model
// (spec/Breaker.tla via MCBreaker's transition emission), executes every
// step on a real circuitbreaker.CircuitBreaker built from /repo's working
// tree, and writes the observable events (admit / reject / done / stuck /
// tick) as ndjson for the TLC property observer (spec/ObsBreakerTrace.tla).
//
// Built with -tags 'verif faketime': time is virtual and only advances when
// every goroutine is blocked, so a tick is exact and a goroutine that never
// reaches its next gate (self-deadlock) is detected at once by the watchdog
// timer.  Each release of a parked goroutine executes exactly one action of
// the model (the vgate("cb:...") lines precede each critical section).
package main

import (
	"bufio"
	"encoding/json"
	"errors"
	"fmt"
	"net/http"
	"os"
	"runtime"
	"runtime/debug"
	"time"

	"github.com/0xReLogic/Helios/internal/circuitbreaker"
	"github.com/0xReLogic/Helios/internal/config"
	"github.com/0xReLogic/Helios/internal/loadbalancer"
	"github.com/0xReLogic/Helios/internal/logging"
)

type cfg struct {
	FT int `json:"ft"`
	ST int `json:"st"`
	MR int `json:"mr"`
	IV int `json:"iv"`
	TO int `json:"to"`
}

type step struct {
	A string `json:"a"`
	C int    `json:"c"`
	O string `json:"o"`
	N int    `json:"n"`
}

type script struct {
	ID    string `json:"id"`
	Cf    cfg    `json:"cf"`
	Cb    bool   `json:"cb"`    // install a re-entrant state-change callback (like the balancer's)
	MR0   bool   `json:"mr0"`   // leave max_requests unset (0) in the configuration: the balancer's default applies
	Via   string `json:"via"`   // "lb": breaker built by the real NewLoadBalancer from a validated config
	Abort bool   `json:"abort"` // a panicking call panics with http.ErrAbortHandler (what an aborted proxied response does)
	Steps []step `json:"steps"`
}

type caller struct {
	id      int
	resume  chan struct{}
	parked  chan string
	outcome string
}

// one model tick; a bound of k ticks is configured as k ticks + half a tick
var tick = time.Second

var (
	running *caller
	out     *bufio.Writer
	full    bool
)

func emit(v map[string]any) {
	b, _ := json.Marshal(v)
	out.Write(b)
	out.WriteByte('\n')
}

func stateName(s circuitbreaker.State) string {
	switch s {
	case circuitbreaker.StateClosed:
		return "closed"
	case circuitbreaker.StateOpen:
		return "open"
	case circuitbreaker.StateHalfOpen:
		return "half"
	}
	return "unknown"
}

var errFn = errors.New("fn failed")

func mrCfg(sc script) int {
	if sc.MR0 {
		return 0
	}
	return sc.Cf.MR
}

func runScript(sc script) {
	var cb *circuitbreaker.CircuitBreaker
	set := circuitbreaker.Settings{
		Name:             "v",
		MaxRequests:      uint32(sc.Cf.MR),
		FailureThreshold: uint32(sc.Cf.FT),
		SuccessThreshold: uint32(sc.Cf.ST),
		// k ticks are concretised as k+1/2 tick durations: "elapsed > k ticks" is
		// then never decided at the instant of equality (don't-care in the property)
		Interval: time.Duration(sc.Cf.IV)*tick + tick/2,
		Timeout:  time.Duration(sc.Cf.TO)*tick + tick/2,
	}
	if sc.Cb {
		set.OnStateChange = func(name string, from, to circuitbreaker.State) {
			// what the balancer's callback does: read the counters back
			_, _, _ = cb.Counts()
		}
	}
	if sc.Via == "lb" {
		// the breaker exactly as the balancer wires it (defaults, state-change callback),
		// from a configuration the real validator accepted; whole seconds only, so a
		// tick is 2 s and k ticks + 1/2 tick = 2k+1 s
		tick = 2 * time.Second
		c := &config.Config{
			Server:       config.ServerConfig{Port: 8080},
			Backends:     []config.BackendConfig{{Name: "b", Address: "http://127.0.0.1:1"}},
			LoadBalancer: config.LoadBalancerConfig{Strategy: "round_robin"},
			CircuitBreaker: config.CircuitBreakerConfig{Enabled: true, MaxRequests: mrCfg(sc),
				IntervalSeconds: 2*sc.Cf.IV + 1, TimeoutSeconds: 2*sc.Cf.TO + 1,
				FailureThreshold: sc.Cf.FT, SuccessThreshold: sc.Cf.ST},
		}
		emit(map[string]any{"ev": "cfg", "id": sc.ID, "cf": sc.Cf})
		if err := c.Validate(); err != nil {
			// outside the property's quantifier ("every accepted configuration")
			emit(map[string]any{"ev": "skip", "why": "configuration rejected by Validate: " + err.Error()})
			return
		}
		lb, err := loadbalancer.NewLoadBalancer(c)
		if err != nil {
			emit(map[string]any{"ev": "drift", "why": "NewLoadBalancer: " + err.Error(), "c": 0})
			return
		}
		cb = lb.VerifBreaker()
	} else {
		tick = time.Second
		cb = circuitbreaker.NewCircuitBreaker(set)
		emit(map[string]any{"ev": "cfg", "id": sc.ID, "cf": sc.Cf})
	}
	callers := map[int]*caller{}
	stuck := false

	wait := func(c *caller) {
		var msg string
		select {
		case msg = <-c.parked:
		case <-time.After(2 * time.Second):
			// every goroutine is blocked (virtual time jumped to the watchdog)
			emit(map[string]any{"ev": "stuck", "c": c.id, "at": "lock"})
			stuck = true
			return
		}
		switch {
		case msg == "fn":
			emit(map[string]any{"ev": "admit", "c": c.id})
		case len(msg) > 5 && msg[:5] == "done:":
			res := msg[5:]
			delete(callers, c.id)
			if res == "open" || res == "many" {
				emit(map[string]any{"ev": "reject", "c": c.id, "kind": res})
			} else {
				emit(map[string]any{"ev": "done", "c": c.id, "o": res, "state": stateName(cb.State())})
			}
		}
		if full {
			f, s, r := cb.Counts()
			// the model's program counter of this caller after the step, and its result once it is back
			pcOf := map[string]string{"cb:read": "read", "cb:reset": "reset", "cb:tohalf": "tohalf", "cb:count": "count", "fn": "run", "cb:after": "after"}
			pc, res := pcOf[msg], "none"
			if len(msg) > 5 && msg[:5] == "done:" {
				pc, res = "idle", msg[5:]
			}
			emit(map[string]any{"ev": "st", "c": c.id, "at": msg, "pc": pc, "res": res, "state": stateName(cb.State()), "f": f, "s": s, "r": r})
		}
	}

	for _, st := range sc.Steps {
		if stuck {
			break
		}
		switch st.A {
		case "tick":
			n := st.N
			if n == 0 {
				n = 1
			}
			time.Sleep(time.Duration(n) * tick)
			emit(map[string]any{"ev": "tick", "n": n})
		case "call":
			if callers[st.C] != nil {
				emit(map[string]any{"ev": "drift", "why": "call of a caller that is still in flight", "c": st.C})
				continue
			}
			c := &caller{id: st.C, resume: make(chan struct{}), parked: make(chan string, 1), outcome: st.O}
			callers[st.C] = c
			running = c
			emit(map[string]any{"ev": "call", "c": c.id, "o": c.outcome})
			go func() {
				res := "?"
				ran := false
				defer func() {
					if r := recover(); r != nil {
						if ran && c.outcome == "panic" {
							res = "panic"
						} else {
							res = fmt.Sprintf("unexpected-panic:%v", r)
						}
					}
					c.parked <- "done:" + res
				}()
				err := cb.Execute(func() error {
					ran = true
					c.parked <- "fn"
					<-c.resume
					switch c.outcome {
					case "ok":
						return nil
					case "err":
						return errFn
					}
					if sc.Abort {
						panic(http.ErrAbortHandler)
					}
					panic("fn panics")
				})
				switch {
				case err == nil:
					res = "ok"
				case err == circuitbreaker.ErrCircuitBreakerOpen:
					res = "open"
				case err == circuitbreaker.ErrTooManyRequests:
					res = "many"
				case err == errFn:
					res = "err"
				default:
					res = "othererr:" + err.Error()
				}
			}()
			wait(c)
		case "recover":
			// C08 recovery script: let the timeout elapse, then N successful sequential
			// calls (each preceded by nothing else); report the last one
			time.Sleep(time.Duration(sc.Cf.TO+1) * tick)
			res := "none"
			running = nil // gates are pass-through for the recovery calls
			fin := make(chan struct{})
			go func() {
				defer close(fin)
				for i := 0; i < st.N; i++ {
					err := cb.Execute(func() error { return nil })
					switch {
					case err == nil:
						res = "ok"
					case err == circuitbreaker.ErrCircuitBreakerOpen:
						res = "open"
					case err == circuitbreaker.ErrTooManyRequests:
						res = "many"
					default:
						res = "err"
					}
				}
			}()
			select {
			case <-fin:
			case <-time.After(2 * time.Second):
				emit(map[string]any{"ev": "stuck", "c": 0, "at": "recover"})
				stuck = true
				continue
			}
			emit(map[string]any{"ev": "probe", "res": res, "state": stateName(cb.State()), "n": st.N})
		case "step":
			c := callers[st.C]
			if c == nil {
				// the real breaker left the model's path (e.g. it rejected a call the
				// model admits): the scripted step has no counterpart -- DRIFT, not a verdict
				emit(map[string]any{"ev": "drift", "why": "step of a caller that is not in flight", "c": st.C})
				continue
			}
			running = c
			c.resume <- struct{}{}
			wait(c)
		}
	}
}

func main() {
	// faketime pitfall: a GC cycle's forEachP/notetsleep waits on the (frozen)
	// virtual clock and can hang forever; these short-lived replays run without GC
	debug.SetGCPercent(-1)
	runtime.GOMAXPROCS(1)
	logging.Init(config.LoggingConfig{Level: "fatal", Format: "json"})
	if len(os.Args) < 3 {
		fmt.Fprintln(os.Stderr, "usage: breaker <scripts.ndjson> <trace-out.ndjson> [full]")
		os.Exit(2)
	}
	full = len(os.Args) > 3 && os.Args[3] == "full"
	in, err := os.Open(os.Args[1])
	if err != nil {
		panic(err)
	}
	of, err := os.Create(os.Args[2])
	if err != nil {
		panic(err)
	}
	out = bufio.NewWriterSize(of, 1<<20)
	circuitbreaker.VerifGate = func(point string) {
		c := running
		if c == nil {
			return
		}
		c.parked <- point
		<-c.resume
	}
	rd := bufio.NewReaderSize(in, 1<<20)
	dec := json.NewDecoder(rd)
	n := 0
	for dec.More() {
		var sc script
		if err := dec.Decode(&sc); err != nil {
			panic(err)
		}
		runScript(sc)
		n++
	}
	out.Flush()
	of.Close()
	os.WriteFile(os.Args[2]+".ok", []byte(fmt.Sprint(n)), 0o644)
}
