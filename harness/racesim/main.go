// racesim -- concurrent workload driver for C12, built with -race.
// The operation sequences are the covering walks TLC derived from
// spec/Pool.tla; here many of them run concurrently, unsynchronised, against
// ONE real LoadBalancer per configuration (real admin mux, real metrics /
// health handlers, scripted RoundTrippers), together with readers of
// /metrics, /health and /v1/backends, health transitions, strategy switches
// and a final Stop racing the remaining traffic.  The race detector reports
// to GORACE log_path; panics and a stuck run are recorded as events.
package main

import (
	"bufio"
	"bytes"
	"context"
	"encoding/json"
	"fmt"
	"io"
	"log"
	"net"
	"net/http"
	"net/http/httptest"
	"os"
	"runtime"
	"strings"
	"sync"
	"sync/atomic"
	"time"

	"github.com/0xReLogic/Helios/internal/adminapi"
	"github.com/0xReLogic/Helios/internal/config"
	"github.com/0xReLogic/Helios/internal/loadbalancer"
	"github.com/0xReLogic/Helios/internal/logging"
	"github.com/0xReLogic/Helios/internal/plugins"
)

type step struct {
	A      string `json:"a"`
	ID     int    `json:"id"`
	Client string `json:"client"`
	Plan   string `json:"plan"`
	B      string `json:"b"`
	R      string `json:"r"`
	Op     string `json:"op"`
	Name   string `json:"name"`
	Addr   string `json:"addr"`
	W      int    `json:"w"`
	S      string `json:"s"`
}
type group struct {
	ID       string   `json:"id"`
	Strategy string   `json:"strategy"`
	CB       bool     `json:"cb"`
	RL       bool     `json:"rl"`
	Active   bool     `json:"active"`
	Passive  bool     `json:"passive"`
	WsPool   bool     `json:"wspool"`
	Plugins  bool     `json:"plugins"`
	Walks    [][]step `json:"walks"`
}

// one real scripted backend on loopback: nothing of the balancer is patched while traffic runs
var (
	backendAddr string
	probes      int64
)

func backend(w http.ResponseWriter, r *http.Request) {
	if r.Body != nil {
		io.Copy(io.Discard, r.Body)
	}
	if strings.HasSuffix(r.URL.Path, "/healthz") {
		atomic.AddInt64(&probes, 1)
		w.Write([]byte("ok"))
		return
	}
	switch r.Header.Get("X-Plan") {
	case "s500":
		http.Error(w, "boom", 500)
	case "refuse", "abort":
		// reset the connection: before any response (unreachable) or mid-body (aborted)
		if r.Header.Get("X-Plan") == "abort" {
			w.Header().Set("Content-Length", "100")
			w.WriteHeader(200)
			w.Write([]byte("partial"))
			if f, ok := w.(http.Flusher); ok {
				f.Flush()
			}
		}
		if hj, ok := w.(http.Hijacker); ok {
			if c, _, err := hj.Hijack(); err == nil {
				c.Close()
			}
		}
	case "hold":
		time.Sleep(2 * time.Millisecond)
		w.Write([]byte("ok"))
	default:
		w.Write([]byte("ok"))
	}
}

func startBackend() {
	ln, err := net.Listen("tcp", "127.0.0.1:0")
	if err != nil {
		panic(err)
	}
	backendAddr = ln.Addr().String()
	go (&http.Server{Handler: http.HandlerFunc(backend)}).Serve(ln)
}

func runGroup(g group, out *bufio.Writer, mu *sync.Mutex) {
	c := &config.Config{}
	c.Server.Port = 8080
	for i := 1; i <= 3; i++ {
		c.Backends = append(c.Backends, config.BackendConfig{Name: fmt.Sprintf("b%d", i), Address: "http://" + backendAddr, Weight: i})
	}
	c.LoadBalancer.Strategy = g.Strategy
	c.HealthChecks.Passive = config.PassiveHealthCheckConfig{Enabled: g.Passive, UnhealthyThreshold: 2, UnhealthyTimeout: 1}
	if g.Active {
		c.HealthChecks.Active = config.ActiveHealthCheckConfig{Enabled: true, Interval: 1, Timeout: 1, Path: "/healthz"}
		c.HealthChecks.Active.Timeout = 0 // validated configs need timeout < interval; the driver builds the struct directly
		c.HealthChecks.Active.Timeout = 1
	}
	if g.CB {
		c.CircuitBreaker = config.CircuitBreakerConfig{Enabled: true, MaxRequests: 2, FailureThreshold: 3, SuccessThreshold: 2, IntervalSeconds: 1, TimeoutSeconds: 1}
	}
	if g.RL {
		c.RateLimit = config.RateLimitConfig{Enabled: true, MaxTokens: 20, RefillRate: 1}
	}
	if g.WsPool {
		c.LoadBalancer.WebSocketPool = config.WebSocketPoolConfig{Enabled: true, MaxIdle: 2, MaxActive: 10, IdleTimeoutSeconds: 1}
	}
	c.Logging = config.LoggingConfig{Level: "fatal", Format: "json"}
	c.Logging.RequestID.Enabled = true
	c.Logging.Trace.Enabled = true
	atomic.StoreInt64(&probes, 0)
	lb, err := loadbalancer.NewLoadBalancer(c)
	if err != nil {
		panic(err)
	}
	var h http.Handler = lb
	if g.Plugins {
		pc := config.PluginsConfig{Enabled: true, Chain: []config.PluginConfig{{Name: "logging"},
			{Name: "size_limit", Config: map[string]interface{}{"max_request_body": 1 << 20, "max_response_body": 1 << 20}},
			{Name: "gzip", Config: map[string]interface{}{"level": 5.0, "min_size": 16.0, "content_types": []interface{}{"text/plain"}}},
			{Name: "headers", Config: map[string]interface{}{"set": map[string]interface{}{"X-App": "Helios"}}}}}
		ch, err := plugins.BuildChain(pc, h)
		if err != nil {
			panic(err)
		}
		h = ch
	}
	h = logging.RequestContextMiddleware(c.Logging)(h)
	admin := adminapi.NewMux(lb, c, lb.GetMetricsCollector())
	var panics []string
	var pmu sync.Mutex
	var ops int64
	guard := func(where string) {
		if r := recover(); r != nil && r != http.ErrAbortHandler {
			pmu.Lock()
			panics = append(panics, fmt.Sprintf("%s: %v", where, r))
			pmu.Unlock()
		}
	}
	doStep := func(st step) {
		defer guard(st.A)
		atomic.AddInt64(&ops, 1)
		switch st.A {
		case "req":
			req := httptest.NewRequest("GET", "http://helios.test/", nil)
			if st.Client != "" {
				req.RemoteAddr = st.Client + ":4000"
			}
			req.Header.Set("Accept-Encoding", "gzip")
			req.Header.Set("X-Plan", st.Plan)
			ctx := context.WithValue(req.Context(), http.ServerContextKey, &http.Server{})
			if st.Plan == "cancel" {
				// the client goes away while the exchange is in progress
				cctx, cancel := context.WithCancel(ctx)
				ctx = cctx
				go func() { time.Sleep(200 * time.Microsecond); cancel() }()
			}
			h.ServeHTTP(httptest.NewRecorder(), req.WithContext(ctx))
		case "mark":
			for _, b := range lb.VerifBackends() {
				if b.Name == st.B {
					lb.MarkBackendUnhealthy(b, 2*time.Millisecond)
				}
			}
		case "tick":
			time.Sleep(time.Millisecond)
		case "admin":
			var req *http.Request
			switch st.Op {
			case "add":
				b, _ := json.Marshal(map[string]any{"name": st.Name, "address": "http://" + backendAddr, "weight": st.W})
				req = httptest.NewRequest("POST", "/v1/backends/add", bytes.NewReader(b))
			case "remove":
				b, _ := json.Marshal(map[string]any{"name": st.Name})
				req = httptest.NewRequest("POST", "/v1/backends/remove", bytes.NewReader(b))
			case "strategy":
				b, _ := json.Marshal(map[string]any{"strategy": st.S})
				req = httptest.NewRequest("POST", "/v1/strategy", bytes.NewReader(b))
			default:
				req = httptest.NewRequest("GET", "/v1/backends", nil)
			}
			admin.ServeHTTP(httptest.NewRecorder(), req)
		case "snap":
			lb.GetMetricsCollector().MetricsHandler()(httptest.NewRecorder(), httptest.NewRequest("GET", "/metrics", nil))
			lb.GetMetricsCollector().HealthHandler()(httptest.NewRecorder(), httptest.NewRequest("GET", "/health", nil))
		}
	}
	var wg sync.WaitGroup
	done := make(chan struct{})
	// readers of the published state
	for r := 0; r < 3; r++ {
		wg.Add(1)
		go func() {
			defer wg.Done()
			for {
				select {
				case <-done:
					return
				default:
				}
				doStep(step{A: "snap"})
				doStep(step{A: "admin", Op: "list"})
				if p := lb.VerifPool(); p != nil {
					p.Stats("b1")
				}
				time.Sleep(300 * time.Microsecond)
			}
		}()
	}
	var wwg sync.WaitGroup
	for _, w := range g.Walks {
		wwg.Add(1)
		go func(w []step) {
			defer wwg.Done()
			for _, st := range w {
				doStep(st)
			}
		}(w)
	}
	fin := make(chan struct{})
	go func() { wwg.Wait(); close(fin) }()
	// watchdog: the walks are bounded, so "no operation completed for 20 s" means the run is wedged
	stuck := false
	last, lastChange, began := atomic.LoadInt64(&ops), time.Now(), time.Now()
wait:
	for {
		select {
		case <-fin:
			break wait
		case <-time.After(500 * time.Millisecond):
			if time.Since(began) > 150*time.Second {
				stuck = true
				break wait
			}
			if cur := atomic.LoadInt64(&ops); cur != last {
				last, lastChange = cur, time.Now()
			} else if time.Since(lastChange) > 20*time.Second || time.Since(began) > 150*time.Second {
				stuck = true
				break wait
			}
		}
	}
	stacks := ""
	if stuck {
		buf := make([]byte, 1<<16)
		stacks = string(buf[:runtime.Stack(buf, true)])
	}
	// Stop while readers (and, if stuck, walkers) are still active
	sfin := make(chan struct{})
	go func() { defer guard("stop"); lb.Stop(); lb.Stop(); close(sfin) }()
	stopWait := 30 * time.Second
	if stuck {
		stopWait = 3 * time.Second
	}
	select {
	case <-sfin:
	case <-time.After(stopWait):
		if !stuck {
			buf := make([]byte, 1<<16)
			stacks = string(buf[:runtime.Stack(buf, true)])
		}
		stuck = true
	}
	close(done)
	rfin := make(chan struct{})
	go func() { wg.Wait(); close(rfin) }()
	select {
	case <-rfin:
	case <-time.After(20 * time.Second):
		// readers wedged as well: leave them behind
		if !stuck {
			buf := make([]byte, 1<<16)
			stacks = string(buf[:runtime.Stack(buf, true)])
		}
		stuck = true
	}
	ev := map[string]any{"ev": "group", "id": g.ID, "strategy": g.Strategy, "ops": atomic.LoadInt64(&ops), "walks": len(g.Walks),
		"panics": panics, "stuck": stuck, "probes": atomic.LoadInt64(&probes), "stacks": stacks}
	if panics == nil {
		ev["panics"] = []string{}
	}
	b, _ := json.Marshal(ev)
	mu.Lock()
	out.Write(b)
	out.WriteByte('\n')
	mu.Unlock()
}

func main() {
	log.SetOutput(io.Discard)
	startBackend()
	logging.Init(config.LoggingConfig{Level: "fatal", Format: "json"})
	in, err := os.Open(os.Args[1])
	if err != nil {
		panic(err)
	}
	of, err := os.Create(os.Args[2])
	if err != nil {
		panic(err)
	}
	out := bufio.NewWriterSize(of, 1<<20)
	var mu sync.Mutex
	dec := json.NewDecoder(bufio.NewReaderSize(in, 1<<20))
	n := 0
	for dec.More() {
		var g group
		if err := dec.Decode(&g); err != nil {
			panic(err)
		}
		runGroup(g, out, &mu)
		n++
	}
	out.Flush()
	of.Close()
	os.WriteFile(os.Args[2]+".ok", []byte(fmt.Sprint(n)), 0o644)
}
