// idsim -- concurrent ID generation for C16's uniqueness clause: many
// goroutines running in real parallel (no virtual time) send requests without
// client IDs through the real RequestContextMiddleware in front of the real
// balancer (scripted backend); all generated request / trace IDs are written
// as one burst record for the TLA+ observer (IdHeaders!CheckBurst).
package main

import (
	"encoding/json"
	"io"
	"net/http"
	"net/http/httptest"
	"os"
	"runtime"
	"strconv"
	"strings"
	"sync"

	"github.com/0xReLogic/Helios/internal/config"
	"github.com/0xReLogic/Helios/internal/loadbalancer"
	"github.com/0xReLogic/Helios/internal/logging"
)

type rt struct{}

func (rt) RoundTrip(r *http.Request) (*http.Response, error) {
	return &http.Response{StatusCode: 200, Status: "200 OK", Proto: "HTTP/1.1", ProtoMajor: 1, ProtoMinor: 1, Request: r,
		Header: http.Header{"Content-Type": []string{"text/plain"}, "X-Seen-Rid": []string{r.Header.Get("X-Request-ID")}},
		Body:   io.NopCloser(strings.NewReader("ok")), ContentLength: 2}, nil
}

func main() {
	total, _ := strconv.Atoi(os.Args[1])
	logging.Init(config.LoggingConfig{Level: "fatal", Format: "json"})
	c := &config.Config{}
	c.Server.Port = 8080
	c.Backends = []config.BackendConfig{{Name: "b1", Address: "http://b1.backend.test:80", Weight: 1}}
	c.LoadBalancer.Strategy = "round_robin"
	c.Logging.RequestID.Enabled = true
	c.Logging.Trace.Enabled = true
	lb, err := loadbalancer.NewLoadBalancer(c)
	if err != nil {
		panic(err)
	}
	for _, b := range lb.VerifBackends() {
		b.ReverseProxy.Transport = rt{}
	}
	h := logging.RequestContextMiddleware(c.Logging)(lb)
	workers := 4 * runtime.GOMAXPROCS(0)
	per := total / workers
	rids := make([][]string, workers)
	tids := make([][]string, workers)
	mism := make([]int, workers)
	var wg sync.WaitGroup
	for w := 0; w < workers; w++ {
		wg.Add(1)
		go func(w int) {
			defer wg.Done()
			for i := 0; i < per; i++ {
				rec := httptest.NewRecorder()
				h.ServeHTTP(rec, httptest.NewRequest("GET", "http://helios.test/", nil))
				res := rec.Result()
				rid := res.Header.Get("X-Request-ID")
				rids[w] = append(rids[w], rid)
				tids[w] = append(tids[w], res.Header.Get("X-Trace-ID"))
				if res.Header.Get("X-Seen-Rid") != rid {
					mism[w]++
				}
			}
		}(w)
	}
	wg.Wait()
	allr, allt := []string{}, []string{}
	mm := 0
	for w := 0; w < workers; w++ {
		allr = append(allr, rids[w]...)
		allt = append(allt, tids[w]...)
		mm += mism[w]
	}
	out := map[string]any{"burst": map[string]any{"n": len(allr), "rids": allr, "tids": allt, "mismatch": mm, "parallel": true}}
	b, _ := json.Marshal(out)
	os.WriteFile(os.Args[2], append(b, '\n'), 0o644)
}
