// adminsim -- executes the abstract admin-API cases enumerated by TLC from
// spec/AdminPolicy.tla against the real adminapi.NewMux and a real
// LoadBalancer, and records what happened (status, whether the backend set /
// strategy changed, whether a refusal's body leaks anything).  The verdict is
// TLC's (spec/ObsAdminTrace.tla).
//
// Concretisation of the 3-bit address lattice (host h, network [p,len]):
//
//	v4     host 198.51.100.(32h+7)          net 198.51.100.(p<<(8-len))/(24+len)
//	v6     host 2001:db8::(h<<13|7)         net 2001:db8::(p<<(16-len))/(112+len)
//	mapped peer ::ffff:198.51.100.(32h+7)   lists in v4 notation
//	mappedlist peer in v4 notation          lists in IPv4-mapped notation (::ffff:a.b.c.d, /(96+n))
//
// a `single` network is written as the bare host address.
package main

import (
	"bufio"
	"bytes"
	"encoding/json"
	"fmt"
	"net/http/httptest"
	"os"
	"strings"

	"github.com/0xReLogic/Helios/internal/adminapi"
	"github.com/0xReLogic/Helios/internal/config"
	"github.com/0xReLogic/Helios/internal/loadbalancer"
	"github.com/0xReLogic/Helios/internal/logging"
)

type netw struct {
	P      int  `json:"p"`
	Len    int  `json:"len"`
	Single bool `json:"single"`
}
type kase struct {
	Allow     []netw `json:"allow"`
	Deny      []netw `json:"deny"`
	Malformed string `json:"malformed"`
	MKind     string `json:"mkind"`
	Peer      int    `json:"peer"`
	XFF       string `json:"xff"`
	XRI       string `json:"xri"`
	Family    string `json:"family"`
	Rev       bool   `json:"rev"`
	Token     bool   `json:"token"`
	Authz     string `json:"authz"`
	Endpoint  string `json:"endpoint"`
	Method    string `json:"method"`
}

func host(fam string, h int) string {
	switch fam {
	case "v6":
		return fmt.Sprintf("2001:db8::%x", h<<13|7)
	case "mapped":
		return fmt.Sprintf("::ffff:198.51.100.%d", 32*h+7)
	}
	return fmt.Sprintf("198.51.100.%d", 32*h+7)
}

func network(fam string, n netw) string {
	if fam == "mappedlist" {
		if n.Single {
			return host("mapped", n.P)
		}
		return fmt.Sprintf("::ffff:198.51.100.%d/%d", n.P<<(8-n.Len), 96+24+n.Len)
	}
	if fam == "v6" {
		if n.Single {
			return host("v6", n.P)
		}
		return fmt.Sprintf("2001:db8::%x/%d", n.P<<(16-n.Len), 112+n.Len)
	}
	if n.Single {
		return host("v4", n.P)
	}
	return fmt.Sprintf("198.51.100.%d/%d", n.P<<(8-n.Len), 24+n.Len)
}

func forged(fam, f string) string {
	switch f {
	case "h0":
		return host(fam, 0)
	case "h5":
		return host(fam, 5)
	case "h7":
		return host(fam, 7)
	case "junk":
		return "garbage, " + host(fam, 0)
	}
	return ""
}

const token = "tok123"

func newLB() (*loadbalancer.LoadBalancer, *config.Config) {
	c := &config.Config{}
	c.Server.Port = 8080
	c.Backends = []config.BackendConfig{{Name: "b1", Address: "http://b1.backend.test:80", Weight: 1}, {Name: "b2", Address: "http://b2.backend.test:80", Weight: 2}}
	c.LoadBalancer.Strategy = "round_robin"
	lb, err := loadbalancer.NewLoadBalancer(c)
	if err != nil {
		panic(err)
	}
	return lb, c
}

func state(lb *loadbalancer.LoadBalancer, c *config.Config) string {
	var sb strings.Builder
	sb.WriteString(c.LoadBalancer.Strategy)
	for _, b := range lb.ListBackends() {
		fmt.Fprintf(&sb, "|%s,%s,%d", b.Name, b.Address, b.Weight)
	}
	return sb.String()
}

func main() {
	logging.Init(config.LoggingConfig{Level: "fatal", Format: "json"})
	in, err := os.Open(os.Args[1])
	if err != nil {
		panic(err)
	}
	of, err := os.Create(os.Args[2])
	if err != nil {
		panic(err)
	}
	out := bufio.NewWriterSize(of, 1<<20)
	dec := json.NewDecoder(bufio.NewReaderSize(in, 1<<20))
	lb, cfg := newLB()
	n := 0
	for dec.More() {
		var raw json.RawMessage
		if err := dec.Decode(&raw); err != nil {
			panic(err)
		}
		var k kase
		if err := json.Unmarshal(raw, &k); err != nil {
			panic(err)
		}
		mutating := k.Endpoint == "add" || k.Endpoint == "remove" || k.Endpoint == "strategy"
		if mutating {
			lb.Stop()
			lb, cfg = newLB()
		}
		listFam := k.Family
		if listFam == "mapped" {
			listFam = "v4"
		}
		cfg.AdminAPI = config.AdminAPIConfig{Enabled: true, Port: 9091}
		if k.Rev {
			// the same lists configured in the opposite order
			for i, j := 0, len(k.Allow)-1; i < j; i, j = i+1, j-1 {
				k.Allow[i], k.Allow[j] = k.Allow[j], k.Allow[i]
			}
			for i, j := 0, len(k.Deny)-1; i < j; i, j = i+1, j-1 {
				k.Deny[i], k.Deny[j] = k.Deny[j], k.Deny[i]
			}
		}
		for _, a := range k.Allow {
			cfg.AdminAPI.IPAllowList = append(cfg.AdminAPI.IPAllowList, network(listFam, a))
		}
		for _, d := range k.Deny {
			cfg.AdminAPI.IPDenyList = append(cfg.AdminAPI.IPDenyList, network(listFam, d))
		}
		bad := map[string]string{"badip": "300.1.2.3/24", "blank": "", "space": "   ", "hostname": "admin.example.com", "cidr_oob": "10.0.0.0/33"}[k.MKind]
		switch k.Malformed {
		case "allow":
			cfg.AdminAPI.IPAllowList = append(cfg.AdminAPI.IPAllowList, bad)
		case "deny":
			cfg.AdminAPI.IPDenyList = append(cfg.AdminAPI.IPDenyList, bad)
		}
		if k.Token {
			cfg.AdminAPI.AuthToken = token
		}
		mux := adminapi.NewMux(lb, cfg, lb.GetMetricsCollector())
		var path string
		var body []byte
		switch k.Endpoint {
		case "health":
			path = "/v1/health"
		case "metrics":
			path = "/v1/metrics"
		case "backends":
			path = "/v1/backends"
		case "add":
			path = "/v1/backends/add"
			body = []byte(`{"name":"bx","address":"http://bx.backend.test:80","weight":1}`)
		case "remove":
			path = "/v1/backends/remove"
			body = []byte(`{"name":"b1"}`)
		case "strategy":
			path = "/v1/strategy"
			body = []byte(`{"strategy":"least_connections"}`)
		}
		req := httptest.NewRequest(k.Method, path, bytes.NewReader(body))
		if k.Peer == 99 {
			req.RemoteAddr = "not-an-ip:1234"
		} else if k.Family == "v4" {
			req.RemoteAddr = host("v4", k.Peer) + ":40000"
		} else {
			req.RemoteAddr = "[" + host(k.Family, k.Peer) + "]:40000"
		}
		if f := forged(k.Family, k.XFF); f != "" {
			req.Header.Set("X-Forwarded-For", f)
		}
		if f := forged(k.Family, k.XRI); f != "" {
			req.Header.Set("X-Real-IP", f)
		}
		switch k.Authz {
		case "exact":
			req.Header.Set("Authorization", "Bearer "+token)
		case "wrong":
			req.Header.Set("Authorization", "Bearer nope")
		case "lower":
			req.Header.Set("Authorization", "bearer "+token)
		case "twospace":
			req.Header.Set("Authorization", "Bearer  "+token)
		case "prefixonly":
			req.Header.Set("Authorization", "Bearer ")
		case "notrail":
			req.Header.Set("Authorization", "Bearer"+token)
		case "suffix":
			req.Header.Set("Authorization", "Bearer "+token+"x")
		case "truncated":
			req.Header.Set("Authorization", "Bearer "+token[:len(token)-1])
		case "onechar":
			req.Header.Set("Authorization", "Bearer "+token[:1])
		}
		before := state(lb, cfg)
		rec := httptest.NewRecorder()
		mux.ServeHTTP(rec, req)
		after := state(lb, cfg)
		b := rec.Body.String()
		leak := strings.Contains(b, "b1") || strings.Contains(b, "backend.test") || strings.Contains(b, "total_requests") || strings.Contains(b, token)
		o := map[string]any{"status": rec.Code, "changed": before != after, "leak": leak}
		ob, _ := json.Marshal(o)
		fmt.Fprintf(out, "{\"c\":%s,\"o\":%s}\n", string(raw), string(ob))
		cfg.AdminAPI = config.AdminAPIConfig{}
		n++
	}
	out.Flush()
	of.Close()
	os.WriteFile(os.Args[2]+".ok", []byte(fmt.Sprint(n)), 0o644)
}
