// chainsim -- executes the plugin-chain cases enumerated by TLC from
// spec/Chain.tla: builds the chain with the real plugins.BuildChain around the
// real LoadBalancer (one scripted backend), sends the request of the case and
// records build result, probe enter/exit order, whether the backend was
// contacted, and the status.  Verdict: TLC (spec/ObsChainTrace.tla).
package main

import (
	"bufio"
	"bytes"
	"encoding/json"
	"fmt"
	"io"
	"net/http"
	"net/http/httptest"
	"os"
	"strings"

	"github.com/0xReLogic/Helios/internal/config"
	"github.com/0xReLogic/Helios/internal/loadbalancer"
	"github.com/0xReLogic/Helios/internal/logging"
	"github.com/0xReLogic/Helios/internal/plugins"
)

type kase struct {
	Chain []string `json:"chain"`
	Req   struct {
		Key   string `json:"key"`
		Body  string `json:"body"`
		Shape string `json:"shape"`
	} `json:"req"`
}

var (
	enter, exit []string
	contacted   bool
)

type rt struct{}

func (rt) RoundTrip(r *http.Request) (*http.Response, error) {
	contacted = true
	if r.Body != nil {
		io.Copy(io.Discard, r.Body)
	}
	body := "hello"
	return &http.Response{StatusCode: 200, Status: "200 OK", Proto: "HTTP/1.1", ProtoMajor: 1, ProtoMinor: 1,
		Header: http.Header{"Content-Type": []string{"text/plain"}}, Body: io.NopCloser(strings.NewReader(body)),
		ContentLength: int64(len(body)), Request: r}, nil
}

func probe(tag string) {
	plugins.RegisterBuiltin("probe-"+tag, func(name string, cfg map[string]interface{}) (plugins.Middleware, error) {
		return func(next http.Handler) http.Handler {
			return http.HandlerFunc(func(w http.ResponseWriter, r *http.Request) {
				enter = append(enter, tag)
				next.ServeHTTP(w, r)
				exit = append(exit, tag)
			})
		}, nil
	})
}

func pluginFor(tok string) config.PluginConfig {
	gz := map[string]interface{}{"level": 5.0, "min_size": 1024.0, "content_types": []interface{}{"text/html"}}
	switch tok {
	case "P1", "P2", "P3":
		return config.PluginConfig{Name: "probe-" + tok}
	case "AUTH":
		return config.PluginConfig{Name: "custom-auth", Config: map[string]interface{}{"apiKey": "k1"}}
	case "SIZE":
		return config.PluginConfig{Name: "size_limit", Config: map[string]interface{}{"max_request_body": 64, "max_response_body": 100000}}
	case "SIZEL":
		return config.PluginConfig{Name: "size_limit", Config: map[string]interface{}{"max_request_body": 1000, "max_response_body": 100000}}
	case "HDR":
		return config.PluginConfig{Name: "headers", Config: map[string]interface{}{"set": map[string]interface{}{"X-App": "Helios"}, "request_set": map[string]interface{}{"X-From": "LB"}}}
	case "LOG":
		return config.PluginConfig{Name: "logging"}
	case "GZIP":
		return config.PluginConfig{Name: "gzip", Config: gz}
	case "RID":
		return config.PluginConfig{Name: "request-id"}
	case "NONAME!":
		return config.PluginConfig{Name: "does-not-exist"}
	case "AUTH_nokey!":
		return config.PluginConfig{Name: "custom-auth", Config: map[string]interface{}{}}
	case "AUTH_numkey!":
		return config.PluginConfig{Name: "custom-auth", Config: map[string]interface{}{"apiKey": 42}}
	case "AUTHBLANK":
		return config.PluginConfig{Name: "custom-auth", Config: map[string]interface{}{"apiKey": " \n"}}
	case "AUTH_emptykey!":
		return config.PluginConfig{Name: "custom-auth", Config: map[string]interface{}{"apiKey": ""}}
	case "SIZE_neg!":
		return config.PluginConfig{Name: "size_limit", Config: map[string]interface{}{"max_request_body": -1}}
	case "SIZE_zero!":
		return config.PluginConfig{Name: "size_limit", Config: map[string]interface{}{"max_response_body": 0}}
	case "SIZE_str!":
		return config.PluginConfig{Name: "size_limit", Config: map[string]interface{}{"max_request_body": "10MB"}}
	case "GZIP_nolevel!":
		return config.PluginConfig{Name: "gzip", Config: map[string]interface{}{"min_size": 1024.0, "content_types": []interface{}{"text/html"}}}
	case "GZIP_level99!":
		return config.PluginConfig{Name: "gzip", Config: map[string]interface{}{"level": 99.0, "min_size": 1024.0, "content_types": []interface{}{"text/html"}}}
	case "GZIP_types!":
		return config.PluginConfig{Name: "gzip", Config: map[string]interface{}{"level": 5.0, "min_size": 1024.0, "content_types": "text/html"}}
	case "HDR_badval!":
		return config.PluginConfig{Name: "headers", Config: map[string]interface{}{"set": map[string]interface{}{"X-App": 5}}}
	}
	panic("unknown token " + tok)
}

func main() {
	logging.Init(config.LoggingConfig{Level: "fatal", Format: "json"})
	probe("P1")
	probe("P2")
	probe("P3")
	c := &config.Config{}
	c.Server.Port = 8080
	c.Backends = []config.BackendConfig{{Name: "b1", Address: "http://b1.backend.test:80", Weight: 1}}
	c.LoadBalancer.Strategy = "round_robin"
	lb, err := loadbalancer.NewLoadBalancer(c)
	if err != nil {
		panic(err)
	}
	for _, b := range lb.VerifBackends() {
		b.ReverseProxy.Transport = rt{}
	}
	in, err := os.Open(os.Args[1])
	if err != nil {
		panic(err)
	}
	of, err := os.Create(os.Args[2])
	if err != nil {
		panic(err)
	}
	out := bufio.NewWriterSize(of, 1<<20)
	dec := json.NewDecoder(bufio.NewReaderSize(in, 1<<20))
	n := 0
	for dec.More() {
		var raw json.RawMessage
		if err := dec.Decode(&raw); err != nil {
			panic(err)
		}
		var k kase
		json.Unmarshal(raw, &k)
		pc := config.PluginsConfig{Enabled: true}
		for _, t := range k.Chain {
			pc.Chain = append(pc.Chain, pluginFor(t))
		}
		enter, exit, contacted = []string{}, []string{}, false
		o := map[string]any{"build": "ok", "enter": []string{}, "exit": []string{}, "backend": false, "status": 0}
		h, err := plugins.BuildChain(pc, lb)
		if err != nil || h == nil {
			o["build"] = "err"
		} else {
			size := 10
			if k.Req.Body == "big" {
				size = 100
			}
			method := map[string]string{"options": "OPTIONS", "preflight": "OPTIONS", "upgrade": "GET", "head": "HEAD", "delete": "DELETE"}[k.Req.Shape]
			if method == "" {
				method = "POST"
			}
			req := httptest.NewRequest(method, "http://helios.test/x", bytes.NewReader(bytes.Repeat([]byte("a"), size)))
			req.RemoteAddr = "10.0.0.1:40000"
			switch k.Req.Shape {
			case "preflight":
				req.Header.Set("Origin", "https://app.example")
				req.Header.Set("Access-Control-Request-Method", "POST")
				req.Header.Set("Access-Control-Request-Headers", "x-api-key")
			case "upgrade":
				req.Header.Set("Connection", "Upgrade")
				req.Header.Set("Upgrade", "websocket")
			}
			switch k.Req.Key {
			case "ok":
				req.Header.Set("X-API-Key", "k1")
			case "wrong":
				req.Header.Set("X-API-Key", "bad")
			case "samelen":
				req.Header.Set("X-API-Key", "k2")
			case "prefix":
				req.Header.Set("X-API-Key", "k")
			case "upper":
				req.Header.Set("X-API-Key", "K1")
			}
			rec := httptest.NewRecorder()
			h.ServeHTTP(rec, req)
			o["enter"], o["exit"], o["backend"], o["status"] = enter, exit, contacted, rec.Code
		}
		ob, _ := json.Marshal(o)
		fmt.Fprintf(out, "{\"c\":%s,\"o\":%s}\n", string(raw), string(ob))
		n++
	}
	out.Flush()
	of.Close()
	os.WriteFile(os.Args[2]+".ok", []byte(fmt.Sprint(n)), 0o644)
}
