// lbsim -- in-memory replay harness for the whole balancer pipeline (H2).
//
// Runs scripts generated from the TLA+ models against the real
// loadbalancer.LoadBalancer (built by NewLoadBalancer from a real
// config.Config), the real admin mux, the real plugin chain and ID
// middleware.  Backends are scripted http.RoundTrippers (no sockets), time is
// Go's faketime clock, so a script step "tick" is exact and instantaneous.
// Every observable is written as one ndjson event; TLC judges the trace with
// the property observers in /verif/spec.  The harness never interprets the
// events itself.
package main

import (
	"bufio"
	"bytes"
	"context"
	"encoding/json"
	"errors"
	"fmt"
	"io"
	"net"
	"net/http"
	"net/http/httptest"
	"os"
	"runtime"
	"runtime/debug"
	"sort"
	"strings"
	"sync"
	"sync/atomic"
	"time"

	"github.com/0xReLogic/Helios/internal/adminapi"
	"github.com/0xReLogic/Helios/internal/circuitbreaker"
	"github.com/0xReLogic/Helios/internal/config"
	"github.com/0xReLogic/Helios/internal/loadbalancer"
	"github.com/0xReLogic/Helios/internal/logging"
	"github.com/0xReLogic/Helios/internal/plugins"
)

const tick = 2 * time.Second // k ticks + 1/2 tick = 2k+1 whole seconds

type backendCfg struct {
	Name string `json:"name"`
	W    int    `json:"w"`
}

type simCfg struct {
	Strategy string       `json:"strategy"`
	SameHost bool         `json:"samehost"` // every backend lives on one host name, told apart by the port only
	Backends []backendCfg `json:"backends"`
	Passive  struct {
		On  bool `json:"on"`
		Thr int  `json:"thr"`
		Win int  `json:"win"` // ticks
	} `json:"passive"`
	Active struct {
		On bool `json:"on"`
		Iv int  `json:"iv"` // ticks
		To int  `json:"to"` // probe timeout, whole seconds (default 1)
	} `json:"active"`
	RL struct {
		On     bool `json:"on"`
		Max    int  `json:"max"`
		Refill int  `json:"refill"` // whole seconds
	} `json:"rl"`
	CB struct {
		On bool `json:"on"`
		FT int  `json:"ft"`
		ST int  `json:"st"`
		MR int  `json:"mr"`
		IV int  `json:"iv"`
		TO int  `json:"to"`
	} `json:"cb"`
	IDs struct {
		Req       bool   `json:"req"`
		Trace     bool   `json:"trace"`
		ReqHeader string `json:"req_header"`
		TrHeader  string `json:"trace_header"`
	} `json:"ids"`
	Plugins []config.PluginConfig `json:"plugins"`
	Token   string                `json:"token"`
	WsPool  bool                  `json:"wspool"`
	Sys     bool                  `json:"sys"` // record the whole abstract state after every step (spec/TraceSystem.tla)
}

type step struct {
	A      string            `json:"a"`
	ID     int               `json:"id"`
	N      int               `json:"n"`
	Client string            `json:"client"`
	Plan   string            `json:"plan"`
	Path   string            `json:"path"`
	Method string            `json:"method"`
	Hdr    map[string]string `json:"hdr"`
	B      string            `json:"b"`
	R      string            `json:"r"`
	Op     string            `json:"op"`
	Name   string            `json:"name"`
	Addr   string            `json:"addr"`
	W      int               `json:"w"`
	S      string            `json:"s"`
	Body   int               `json:"body"`
}

type script struct {
	ID    string `json:"id"`
	Cfg   simCfg `json:"cfg"`
	Steps []step `json:"steps"`
}

var (
	out   *bufio.Writer
	outMu sync.Mutex
)

func emit(v map[string]any) {
	b, err := json.Marshal(v)
	if err != nil {
		panic(err)
	}
	outMu.Lock()
	out.Write(b)
	out.WriteByte('\n')
	outMu.Unlock()
}

type ctxKey string

type reqInfo struct {
	cancel context.CancelFunc
	id     int
	b      string
	plan   string
	held   chan string // non-nil for plan "hold": receives the final plan
	sent   int32       // set once the request has reached a backend's transport
}

// scripted transport shared by all backends of one script
type fakeRT struct {
	reqH, trH string // configured request-id / trace header names
	mu        sync.Mutex
	byHost    map[string]string // host -> backend name
	mode      map[string]string // backend name -> persistent behaviour override
	heldSig   chan int
}

type failingBody struct {
	data []byte
	off  int
}

func (f *failingBody) Read(p []byte) (int, error) {
	if f.off < len(f.data) {
		n := copy(p, f.data[f.off:])
		f.off += n
		return n, nil
	}
	return 0, errors.New("backend connection reset mid-body")
}
func (f *failingBody) Close() error { return nil }

// namedRT is the transport of one backend object: exchanges are attributed to the
// backend they were dispatched to even when two backends share an address
type namedRT struct {
	rt   *fakeRT
	name string
}

func (n *namedRT) RoundTrip(r *http.Request) (*http.Response, error) {
	return n.rt.roundTrip(r, n.name)
}

func (rt *fakeRT) RoundTrip(r *http.Request) (*http.Response, error) { return rt.roundTrip(r, "") }

func (rt *fakeRT) roundTrip(r *http.Request, name string) (*http.Response, error) {
	info, _ := r.Context().Value(ctxKey("info")).(*reqInfo)
	rt.mu.Lock()
	if name == "" {
		name = rt.byHost[r.URL.Host]
	}
	mode := rt.mode[name]
	rt.mu.Unlock()
	if name == "" {
		name = "?" + r.URL.Host
	}
	id := -1
	plan := "ok"
	if info != nil {
		id = info.id
		plan = info.plan
		atomic.StoreInt32(&info.sent, 1)
	}
	if mode != "" {
		plan = mode
	}
	var n int64
	if r.Body != nil {
		n, _ = io.Copy(io.Discard, r.Body)
	}
	emit(map[string]any{"ev": "dispatch", "id": id, "b": name, "method": r.Method, "path": r.URL.Path,
		"rid": nn(r.Header.Values(rt.reqH)), "tid": nn(r.Header.Values(rt.trH)), "xff": r.Header.Get("X-Forwarded-For"),
		"probe": r.Header.Get("X-Verif-Probe"), "reqbody": n, "apikey": r.Header.Get("X-API-Key"),
		"xfrom": r.Header.Get("X-From")})
	if plan == "hold" && info != nil && info.held != nil {
		info.b = name
		rt.heldSig <- id
		plan = <-info.held
	}
	mk := func(code int, body string) *http.Response {
		return &http.Response{StatusCode: code, Status: fmt.Sprintf("%d %s", code, http.StatusText(code)),
			Proto: "HTTP/1.1", ProtoMajor: 1, ProtoMinor: 1, Request: r,
			Header:        http.Header{"Content-Type": []string{"text/plain"}, "X-Backend": []string{name}},
			Body:          io.NopCloser(strings.NewReader(body)),
			ContentLength: int64(len(body))}
	}
	if strings.HasSuffix(plan, "+ownid") {
		// a backend that stamps its own identifiers into the reply
		resp := mk(200, "hello from "+name)
		resp.Header.Set(rt.reqH, "backend-own-rid")
		resp.Header.Set(rt.trH, "backend-own-tid")
		return resp, nil
	}
	switch {
	case plan == "ok":
		return mk(200, "hello from "+name), nil
	case plan == "refuse":
		return nil, errors.New("dial tcp: connection refused")
	case plan == "cancel":
		// the client goes away while the backend is working on the request
		if info != nil && info.cancel != nil {
			info.cancel()
		}
		return nil, context.Canceled
	case plan == "abort":
		resp := mk(200, "")
		resp.Body = &failingBody{data: []byte("partial")}
		resp.ContentLength = 100
		return resp, nil
	case strings.HasPrefix(plan, "s"):
		code := 0
		fmt.Sscanf(plan[1:], "%d", &code)
		if code == 204 || code == 304 {
			r2 := mk(code, "")
			return r2, nil
		}
		return mk(code, "status "+plan), nil
	case strings.HasPrefix(plan, "big"):
		sz := 0
		fmt.Sscanf(plan[3:], "%d", &sz)
		return mk(200, strings.Repeat("x", sz)), nil
	}
	return mk(200, "hello from "+name), nil
}

// probe transport (http.DefaultTransport replacement) for active health checks
type probeRT struct {
	mu     sync.Mutex
	byHost map[string]string
	result map[string]string // backend -> ok | fail | s500
	stop   *bool
}

func (p *probeRT) RoundTrip(r *http.Request) (*http.Response, error) {
	p.mu.Lock()
	name := p.byHost[r.URL.Host]
	res := p.result[name]
	p.mu.Unlock()
	if res == "" {
		res = "ok"
	}
	emit(map[string]any{"ev": "probe", "b": name, "r": res, "stopped": *p.stop})
	switch res {
	case "hang":
		// the backend never answers: the probe ends when its context does
		<-r.Context().Done()
		emit(map[string]any{"ev": "probe_end", "b": name, "stopped": *p.stop})
		return nil, r.Context().Err()
	case "ok":
		return &http.Response{StatusCode: 200, Status: "200 OK", Proto: "HTTP/1.1", ProtoMajor: 1, ProtoMinor: 1,
			Header: http.Header{}, Body: io.NopCloser(strings.NewReader("ok")), Request: r}, nil
	case "s500":
		return &http.Response{StatusCode: 500, Status: "500", Proto: "HTTP/1.1", ProtoMajor: 1, ProtoMinor: 1,
			Header: http.Header{}, Body: io.NopCloser(strings.NewReader("no")), Request: r}, nil
	}
	return nil, errors.New("probe: connection refused")
}

func nn(v []string) []string {
	if v == nil {
		return []string{}
	}
	return v
}

func hdrName(configured, def string) string {
	if strings.TrimSpace(configured) == "" {
		return def
	}
	return strings.TrimSpace(configured)
}

var sameHost bool

// hostOf: the address of a backend by its name ("b3" -> b3.backend.test:80, or backend.test:8003 on one shared host)
func hostOf(name string) string {
	if sameHost {
		n := 0
		fmt.Sscanf(name, "b%d", &n)
		return fmt.Sprintf("backend.test:%d", 8000+n)
	}
	return name + ".backend.test:80"
}

type fakeConn struct{ closed bool }

func (c *fakeConn) Read(b []byte) (int, error)  { return 0, errors.New("fake") }
func (c *fakeConn) Write(b []byte) (int, error) { return len(b), nil }
func (c *fakeConn) Close() error {
	time.Sleep(time.Millisecond) // closing takes a (virtual) moment: whoever else wants to run does
	c.closed = true
	return nil
}
func (c *fakeConn) LocalAddr() net.Addr                { return &net.TCPAddr{} }
func (c *fakeConn) RemoteAddr() net.Addr               { return &net.TCPAddr{} }
func (c *fakeConn) SetDeadline(t time.Time) error      { return nil }
func (c *fakeConn) SetReadDeadline(t time.Time) error  { return nil }
func (c *fakeConn) SetWriteDeadline(t time.Time) error { return nil }

type sim struct {
	pooled  []*fakeConn
	sc      script
	lb      *loadbalancer.LoadBalancer
	cfg     *config.Config
	handler http.Handler
	admin   http.Handler
	rt      *fakeRT
	prt     *probeRT
	held    map[int]*reqInfo
	done    map[int]chan map[string]any
	stopped bool
}

func (s *sim) buildConfig() *config.Config {
	sameHost = s.sc.Cfg.SameHost
	c := &config.Config{}
	c.Server.Port = 8080
	sc := s.sc.Cfg
	for _, b := range sc.Backends {
		c.Backends = append(c.Backends, config.BackendConfig{Name: b.Name, Address: "http://" + hostOf(b.Name), Weight: b.W})
	}
	c.LoadBalancer.Strategy = sc.Strategy
	if sc.Passive.On {
		c.HealthChecks.Passive = config.PassiveHealthCheckConfig{Enabled: true, UnhealthyThreshold: sc.Passive.Thr, UnhealthyTimeout: 2*sc.Passive.Win + 1}
	} else {
		// the window length is also used by the public MarkBackendUnhealthy path and by failed probes
		c.HealthChecks.Passive = config.PassiveHealthCheckConfig{Enabled: false, UnhealthyThreshold: 1, UnhealthyTimeout: 2*sc.Passive.Win + 1}
	}
	if sc.Active.On {
		to := sc.Active.To
		if to == 0 {
			to = 1
		}
		c.HealthChecks.Active = config.ActiveHealthCheckConfig{Enabled: true, Interval: 2 * sc.Active.Iv, Timeout: to, Path: "/healthz"}
	}
	if sc.RL.On {
		c.RateLimit = config.RateLimitConfig{Enabled: true, MaxTokens: sc.RL.Max, RefillRate: sc.RL.Refill}
	}
	if sc.CB.On {
		c.CircuitBreaker = config.CircuitBreakerConfig{Enabled: true, MaxRequests: sc.CB.MR, FailureThreshold: sc.CB.FT,
			SuccessThreshold: sc.CB.ST, IntervalSeconds: 2*sc.CB.IV + 1, TimeoutSeconds: 2*sc.CB.TO + 1}
	}
	c.Logging = config.LoggingConfig{Level: "fatal", Format: "json"}
	c.Logging.RequestID = config.RequestIDConfig{Enabled: sc.IDs.Req, Header: sc.IDs.ReqHeader}
	c.Logging.Trace = config.TraceConfig{Enabled: sc.IDs.Trace, Header: sc.IDs.TrHeader}
	if len(sc.Plugins) > 0 {
		c.Plugins = config.PluginsConfig{Enabled: true, Chain: sc.Plugins}
	}
	c.AdminAPI = config.AdminAPIConfig{Enabled: true, Port: 9091, AuthToken: sc.Token}
	if sc.WsPool {
		c.LoadBalancer.WebSocketPool = config.WebSocketPoolConfig{Enabled: true, MaxIdle: 4, MaxActive: 10, IdleTimeoutSeconds: 300}
	}
	return c
}

func (s *sim) patchTransports() {
	for _, b := range s.lb.VerifBackends() {
		if _, ok := b.ReverseProxy.Transport.(*namedRT); !ok {
			b.ReverseProxy.Transport = &namedRT{rt: s.rt, name: b.Name}
		}
		s.rt.mu.Lock()
		s.rt.byHost[b.URL.Host] = b.Name
		s.rt.mu.Unlock()
		s.prt.mu.Lock()
		s.prt.byHost[b.URL.Host] = b.Name
		s.prt.mu.Unlock()
	}
}

func (s *sim) setup() bool {
	s.cfg = s.buildConfig()
	s.rt = &fakeRT{byHost: map[string]string{}, mode: map[string]string{}, heldSig: make(chan int, 64),
		reqH: hdrName(s.sc.Cfg.IDs.ReqHeader, "X-Request-ID"), trH: hdrName(s.sc.Cfg.IDs.TrHeader, "X-Trace-ID")}
	s.prt = &probeRT{byHost: map[string]string{}, result: map[string]string{}, stop: &s.stopped}
	for _, b := range s.sc.Cfg.Backends {
		s.prt.byHost[hostOf(b.Name)] = b.Name
		s.rt.byHost[hostOf(b.Name)] = b.Name
	}
	http.DefaultTransport = s.prt
	s.held = map[int]*reqInfo{}
	s.done = map[int]chan map[string]any{}
	emit(map[string]any{"ev": "cfg", "id": s.sc.ID, "cfg": s.sc.Cfg})
	if err := s.cfg.Validate(); err != nil {
		emit(map[string]any{"ev": "skip", "why": "Validate: " + err.Error()})
		return false
	}
	lb, err := loadbalancer.NewLoadBalancer(s.cfg)
	if err != nil {
		emit(map[string]any{"ev": "skip", "why": "NewLoadBalancer: " + err.Error()})
		return false
	}
	s.lb = lb
	s.patchTransports()
	// handler composition of cmd/helios buildHandler: plugins -> request context middleware -> balancer
	var h http.Handler = lb
	if s.cfg.Plugins.Enabled && len(s.cfg.Plugins.Chain) > 0 {
		ch, err := plugins.BuildChain(s.cfg.Plugins, h)
		if err != nil {
			emit(map[string]any{"ev": "skip", "why": "BuildChain: " + err.Error()})
			return false
		}
		h = ch
	}
	s.handler = logging.RequestContextMiddleware(s.cfg.Logging)(h)
	s.admin = adminapi.NewMux(lb, s.cfg, lb.GetMetricsCollector())
	time.Sleep(time.Millisecond) // let the initial probe round (if any) finish
	return true
}

type flushRecorder struct {
	*httptest.ResponseRecorder
}

// classify names the layer that answered.  The wording of Helios's own refusals is the first clue; should the wording
// differ (it is not part of any property), an answer to a request that reached no backend is attributed by its status
// and by what the guards say about themselves.
func (s *sim) classify(status int, body string, dispatched bool) string {
	if k := classifyText(status, body); k != "proxied" || dispatched || s.lb == nil {
		return k
	}
	bstate := "none"
	if cb := s.lb.VerifBreaker(); cb != nil {
		bstate = cb.State().String()
	}
	switch {
	case status == http.StatusTooManyRequests && s.sc.Cfg.RL.On && bstate != "HALF-OPEN":
		return "rate_limited"
	case status == http.StatusTooManyRequests && bstate == "HALF-OPEN" && !s.sc.Cfg.RL.On:
		return "cb_too_many"
	case status == http.StatusTooManyRequests && bstate == "HALF-OPEN":
		return "refused_429" // limiter or half-open budget: cannot be told apart from outside
	case status == http.StatusServiceUnavailable && bstate == "OPEN":
		return "cb_open"
	case status == http.StatusServiceUnavailable:
		return "no_backend"
	}
	return "proxied"
}

func classifyText(status int, body string) string {
	switch {
	case strings.Contains(body, "No healthy backend servers available"):
		return "no_backend"
	case strings.Contains(body, "Rate limit exceeded"):
		return "rate_limited"
	case strings.Contains(body, "circuit breaker is open"):
		return "cb_open"
	case strings.Contains(body, "circuit breaker half-open"):
		return "cb_too_many"
	case strings.Contains(body, "Request body too large"):
		return "too_large"
	case status == 401 && strings.Contains(body, "Unauthorized"):
		return "plugin_401"
	case strings.Contains(body, "Internal server error") && status == 500:
		return "internal"
	}
	return "proxied"
}

func (s *sim) doReq(st step) {
	method := st.Method
	if method == "" {
		method = "GET"
	}
	path := st.Path
	if path == "" {
		path = "/"
	}
	var body io.Reader
	if st.Body > 0 {
		body = bytes.NewReader(bytes.Repeat([]byte("b"), st.Body))
	}
	req := httptest.NewRequest(method, "http://helios.test"+path, body)
	client := st.Client
	if client == "" {
		client = "10.0.0.1"
	}
	if strings.Contains(client, ":") && !strings.HasPrefix(client, "[") {
		req.RemoteAddr = "[" + client + "]:40000"
	} else {
		req.RemoteAddr = client + ":40000"
	}
	for k, v := range st.Hdr {
		if v == "\x00absent" {
			continue
		}
		req.Header[http.CanonicalHeaderKey(k)] = strings.Split(v, "\x01") // \x01 separates multiple values
	}
	info := &reqInfo{id: st.ID, plan: st.Plan}
	if st.Plan == "hold" {
		info.held = make(chan string, 1)
		s.held[st.ID] = info
	}
	cctx, cancel := context.WithCancel(req.Context())
	info.cancel = cancel
	ctx := context.WithValue(cctx, ctxKey("info"), info)
	ctx = context.WithValue(ctx, http.ServerContextKey, &http.Server{})
	req = req.WithContext(ctx)
	emit(map[string]any{"ev": "req", "id": st.ID, "client": client, "plan": st.Plan,
		"rid_in": nn(req.Header.Values(s.rt.reqH)), "tid_in": nn(req.Header.Values(s.rt.trH))})
	done := make(chan map[string]any, 1)
	s.done[st.ID] = done
	go func() {
		rec := httptest.NewRecorder()
		ev := map[string]any{"ev": "reply", "id": st.ID}
		defer func() {
			if r := recover(); r != nil {
				if r == http.ErrAbortHandler {
					ev["status"] = 0
					ev["kind"] = "aborted"
				} else {
					ev["status"] = -1
					ev["kind"] = "panic"
					ev["panic"] = fmt.Sprint(r)
				}
			}
			done <- ev
		}()
		s.handler.ServeHTTP(rec, req)
		res := rec.Result()
		b, _ := io.ReadAll(res.Body)
		ev["status"] = res.StatusCode
		ev["kind"] = s.classify(res.StatusCode, string(b), atomic.LoadInt32(&info.sent) == 1)
		ev["len"] = len(b)
		ev["backend"] = res.Header.Get("X-Backend")
		ev["rid"] = nn(res.Header.Values(s.rt.reqH))
		ev["tid"] = nn(res.Header.Values(s.rt.trH))
		ev["xapp"] = res.Header.Get("X-App")
	}()
	s.await(st.ID)
}

// wait until request id replied, or is being held inside a backend round trip
func (s *sim) listing() map[string]any {
	h := map[string]any{}
	for _, b := range s.lb.ListBackends() {
		h[b.Name] = b.Healthy
	}
	return h
}

func (s *sim) await(id int) {
	select {
	case ev := <-s.done[id]:
		delete(s.done, id)
		delete(s.held, id)
		ev["h"] = s.listing() // /v1/backends view right after the reply
		emit(ev)
	case hid := <-s.rt.heldSig:
		emit(map[string]any{"ev": "held", "id": hid})
	case <-time.After(600 * time.Second):
		emit(map[string]any{"ev": "stuck", "id": id, "at": "request"})
		delete(s.done, id)
	}
}

func (s *sim) snapshot(label string) {
	// the PUBLISHED numbers: what a scraper of the /metrics endpoint reads -- scraped more than once, as scrapers
	// do (the last scrape is the one that is judged)
	var m struct {
		TotalRequests       uint64 `json:"total_requests"`
		SuccessfulRequests  uint64 `json:"successful_requests"`
		FailedRequests      uint64 `json:"failed_requests"`
		RateLimitedRequests uint64 `json:"rate_limited_requests"`
		BackendMetrics      map[string]struct {
			Name               string `json:"name"`
			TotalRequests      uint64 `json:"total_requests"`
			SuccessfulRequests uint64 `json:"successful_requests"`
			FailedRequests     uint64 `json:"failed_requests"`
			ActiveConnections  int32  `json:"active_connections"`
			IsHealthy          bool   `json:"is_healthy"`
		} `json:"backend_metrics"`
	}
	for i := 0; i < 3; i++ {
		mrec := httptest.NewRecorder()
		s.lb.GetMetricsCollector().MetricsHandler()(mrec, httptest.NewRequest("GET", "/metrics", nil))
		m.BackendMetrics = nil
		if err := json.Unmarshal(mrec.Body.Bytes(), &m); err != nil {
			emit(map[string]any{"ev": "drift", "why": "metrics endpoint: " + err.Error()})
		}
	}
	bm := map[string]any{}
	for n, b := range m.BackendMetrics {
		bm[n] = map[string]any{"total": b.TotalRequests, "ok": b.SuccessfulRequests, "failed": b.FailedRequests,
			"active": b.ActiveConnections, "healthy": b.IsHealthy, "name": b.Name}
	}
	// the same numbers through the real HTTP handlers
	rec := httptest.NewRecorder()
	s.lb.GetMetricsCollector().HealthHandler()(rec, httptest.NewRequest("GET", "/health", nil))
	var health struct {
		Backends map[string]struct {
			Healthy bool  `json:"healthy"`
			Active  int32 `json:"active_connections"`
		} `json:"backends"`
	}
	_ = json.Unmarshal(rec.Body.Bytes(), &health)
	hb := map[string]any{}
	for n, b := range health.Backends {
		hb[n] = map[string]any{"healthy": b.Healthy, "active": b.Active}
	}
	list := []any{}
	for _, b := range s.lb.ListBackends() {
		list = append(list, map[string]any{"name": b.Name, "addr": b.Address, "healthy": b.Healthy, "active": b.ActiveConnections, "w": b.Weight})
	}
	emit(map[string]any{"ev": "snap", "label": label, "total": m.TotalRequests, "ok": m.SuccessfulRequests, "failed": m.FailedRequests,
		"limited": m.RateLimitedRequests, "backends": bm, "health": hb, "list": list, "strategy": s.cfg.LoadBalancer.Strategy})
}

// sysSnap records, after a step, everything spec/System.tla keeps: breaker state and counters, passive failure
// counts, health flags in list order, the published totals and the breaker state as the metrics collector shows it
func (s *sim) sysSnap() {
	if !s.sc.Cfg.Sys || s.lb == nil {
		return
	}
	ev := map[string]any{"ev": "sys"}
	bk := map[string]any{"state": "closed", "f": 0, "s": 0, "r": 0}
	if cb := s.lb.VerifBreaker(); cb != nil {
		f, su, r := cb.Counts()
		st := map[circuitbreaker.State]string{circuitbreaker.StateClosed: "closed", circuitbreaker.StateOpen: "open", circuitbreaker.StateHalfOpen: "half"}[cb.State()]
		bk = map[string]any{"state": st, "f": f, "s": su, "r": r}
	}
	ev["bk"] = bk
	order := []string{}
	flags := map[string]any{}
	pf := map[string]any{}
	for _, b := range s.lb.ListBackends() {
		order = append(order, b.Name)
		flags[b.Name] = b.Healthy
		pf[b.Name] = s.lb.VerifPassiveCount(b.Name)
	}
	ev["order"], ev["flags"], ev["pf"] = order, flags, pf
	m := s.lb.GetMetricsCollector().GetMetrics()
	ev["met"] = map[string]any{"total": m.TotalRequests, "ok": m.SuccessfulRequests, "failed": m.FailedRequests, "limited": m.RateLimitedRequests}
	mb := map[string]any{}
	for n, b := range m.BackendMetrics {
		mb[n] = map[string]any{"total": b.TotalRequests, "failed": b.FailedRequests}
	}
	ev["mb"] = mb
	cbm := "none"
	for _, c := range m.CircuitBreakerMetrics {
		cbm = map[string]string{"CLOSED": "closed", "OPEN": "open", "HALF-OPEN": "half"}[c.State]
	}
	ev["cbm"] = cbm
	emit(ev)
}

func (s *sim) doAdmin(st step) {
	var req *http.Request
	switch st.Op {
	case "list":
		req = httptest.NewRequest("GET", "/v1/backends", nil)
	case "add":
		b, _ := json.Marshal(map[string]any{"name": st.Name, "address": st.Addr, "weight": st.W})
		req = httptest.NewRequest("POST", "/v1/backends/add", bytes.NewReader(b))
	case "remove":
		b, _ := json.Marshal(map[string]any{"name": st.Name})
		req = httptest.NewRequest("POST", "/v1/backends/remove", bytes.NewReader(b))
	case "strategy":
		b, _ := json.Marshal(map[string]any{"strategy": st.S})
		req = httptest.NewRequest("POST", "/v1/strategy", bytes.NewReader(b))
	default:
		return
	}
	req.RemoteAddr = "127.0.0.1:50000"
	if s.sc.Cfg.Token != "" {
		req.Header.Set("Authorization", "Bearer "+s.sc.Cfg.Token)
	}
	pre := []any{}
	for _, b := range s.lb.ListBackends() {
		pre = append(pre, map[string]any{"name": b.Name, "addr": b.Address, "w": b.Weight, "healthy": b.Healthy})
	}
	rec := httptest.NewRecorder()
	s.admin.ServeHTTP(rec, req)
	ev := map[string]any{"ev": "admin", "pre": pre, "op": st.Op, "name": st.Name, "addr": st.Addr, "w": st.W, "s": st.S, "status": rec.Code}
	if st.Op == "list" {
		var l []map[string]any
		_ = json.Unmarshal(rec.Body.Bytes(), &l)
		names := []string{}
		for _, x := range l {
			names = append(names, fmt.Sprint(x["name"]))
		}
		ev["names"] = names
	}
	s.patchTransports()
	// listing right after the operation returned (what the property talks about)
	items := []any{}
	for _, b := range s.lb.ListBackends() {
		items = append(items, map[string]any{"name": b.Name, "addr": b.Address, "w": b.Weight, "healthy": b.Healthy})
	}
	ev["items"] = items
	ev["strategy"] = s.cfg.LoadBalancer.Strategy
	emit(ev)
}

func (s *sim) run() {
	if !s.setup() {
		return
	}
	for _, st := range s.sc.Steps {
		s.sysSnap() // the state before this step = after the previous one
		switch st.A {
		case "tick":
			n := st.N
			if n == 0 {
				n = 1
			}
			// the tick is logged first: whatever fires at the new instant (probe rounds)
			// happens after time has advanced
			emit(map[string]any{"ev": "tick", "n": n})
			time.Sleep(time.Duration(n) * tick)
		case "req":
			s.doReq(st)
		case "release":
			if st.B != "" {
				// release the most recently held exchange at backend B
				st.ID = -1
				for id, hi := range s.held {
					if hi.b == st.B && id > st.ID {
						st.ID = id
					}
				}
			}
			h := s.held[st.ID]
			if h == nil {
				emit(map[string]any{"ev": "drift", "why": "release of a request that is not held", "id": st.ID})
				continue
			}
			plan := st.Plan
			if plan == "" {
				plan = "ok"
			}
			h.held <- plan
			s.await(st.ID)
		case "mark":
			var tgt *loadbalancer.Backend
			for _, b := range s.lb.VerifBackends() {
				if b.Name == st.B {
					tgt = b
				}
			}
			if tgt == nil {
				emit(map[string]any{"ev": "drift", "why": "mark of unknown backend", "b": st.B})
				continue
			}
			s.lb.MarkBackendUnhealthy(tgt, time.Duration(2*s.sc.Cfg.Passive.Win+1)*time.Second)
			emit(map[string]any{"ev": "mark", "b": st.B})
		case "setprobe":
			s.prt.mu.Lock()
			s.prt.result[st.B] = st.R
			s.prt.mu.Unlock()
			emit(map[string]any{"ev": "setprobe", "b": st.B, "r": st.R})
		case "setmode":
			s.rt.mu.Lock()
			s.rt.mode[st.B] = st.R
			s.rt.mu.Unlock()
			emit(map[string]any{"ev": "setmode", "b": st.B, "r": st.R})
		case "admin":
			s.doAdmin(st)
		case "snap":
			s.snapshot(st.S)
		case "burst":
			// N concurrent requests without client IDs: the generated IDs must be unique
			type pair struct{ r, t []string }
			ch := make(chan pair, st.N)
			for i := 0; i < st.N; i++ {
				go func() {
					req := httptest.NewRequest("GET", "http://helios.test/", nil)
					req.RemoteAddr = "10.9.9.9:40000"
					ctx := context.WithValue(req.Context(), ctxKey("info"), &reqInfo{id: -2, plan: "ok"})
					rec := httptest.NewRecorder()
					s.handler.ServeHTTP(rec, req.WithContext(ctx))
					ch <- pair{nn(rec.Result().Header.Values(s.rt.reqH)), nn(rec.Result().Header.Values(s.rt.trH))}
				}()
			}
			rids, tids := []string{}, []string{}
			for i := 0; i < st.N; i++ {
				p := <-ch
				rids = append(rids, p.r...)
				tids = append(tids, p.t...)
			}
			emit(map[string]any{"ev": "burst", "n": st.N, "rids": rids, "tids": tids})
		case "stop", "stop2":
			// stop2: two concurrent Stop calls
			n := 1
			if st.A == "stop2" {
				n = 2
			}
			fin := make(chan struct{}, n)
			t0 := time.Now()
			panicked := ""
			for i := 0; i < n; i++ {
				go func() {
					defer func() {
						if r := recover(); r != nil {
							panicked = fmt.Sprint(r)
						}
						fin <- struct{}{}
					}()
					s.lb.Stop()
				}()
			}
			okAll := true
			for i := 0; i < n; i++ {
				select {
				case <-fin:
				case <-time.After(120 * time.Second):
					okAll = false
				}
			}
			if okAll {
				s.stopped = true
				emit(map[string]any{"ev": "stopped", "n": n, "ms": int(time.Since(t0) / time.Millisecond), "panic": panicked})
			} else {
				emit(map[string]any{"ev": "stuck", "id": -1, "at": "stop"})
			}
		case "poolput":
			if p := s.lb.VerifPool(); p != nil {
				c := &fakeConn{}
				s.pooled = append(s.pooled, c)
				kept := p.Put(st.B, c)
				emit(map[string]any{"ev": "poolput", "b": st.B, "kept": kept})
			} else {
				emit(map[string]any{"ev": "drift", "why": "no websocket pool"})
			}
		case "poolcheck":
			open := 0
			for _, c := range s.pooled {
				if !c.closed {
					open++
				}
			}
			emit(map[string]any{"ev": "poolcheck", "open": open, "n": len(s.pooled)})
		}
	}
	s.sysSnap()
	// release anything still held so goroutines end, then stop background activity
	ids := []int{}
	for id := range s.held {
		ids = append(ids, id)
	}
	sort.Ints(ids)
	for _, id := range ids {
		s.held[id].held <- "ok"
		<-s.done[id]
	}
	if !s.stopped {
		fin := make(chan struct{})
		go func() { s.lb.Stop(); close(fin) }()
		select {
		case <-fin:
		case <-time.After(120 * time.Second):
		}
	}
}

var _ = circuitbreaker.StateClosed

func main() {
	debug.SetGCPercent(-1)
	runtime.GOMAXPROCS(1)
	if len(os.Args) < 3 {
		fmt.Fprintln(os.Stderr, "usage: lbsim <scripts.ndjson> <trace-out.ndjson>")
		os.Exit(2)
	}
	logging.Init(config.LoggingConfig{Level: "fatal", Format: "json"})
	in, err := os.Open(os.Args[1])
	if err != nil {
		panic(err)
	}
	of, err := os.Create(os.Args[2])
	if err != nil {
		panic(err)
	}
	out = bufio.NewWriterSize(of, 1<<20)
	dec := json.NewDecoder(bufio.NewReaderSize(in, 1<<20))
	n := 0
	for dec.More() {
		var sc script
		if err := dec.Decode(&sc); err != nil {
			panic(err)
		}
		(&sim{sc: sc}).run()
		n++
		if n%200 == 0 {
			// GC is off under faketime (it can hang on the frozen clock): collect explicitly
			// between scripts, when no other goroutine is running
			runtime.GC()
		}
	}
	out.Flush()
	of.Close()
	os.WriteFile(os.Args[2]+".ok", []byte(fmt.Sprint(n)), 0o644)
}
