// cfgsim -- executes configuration cases enumerated by TLC from
// spec/Config.tla: renders each abstract configuration to YAML exactly as a
// user would write it (numbers as YAML ints), loads it with the real
// config.LoadConfig, and for accepted configurations runs the start sequence
// of cmd/helios (logging.Init, NewLoadBalancer, plugin chain) and stops it.
// Cases of kind "file" load a file verbatim (shipped samples, README blocks).
package main

import (
	"bufio"
	"bytes"
	"encoding/json"
	"fmt"
	"net"
	"os"
	"os/exec"
	"path/filepath"
	"strings"
	"syscall"
	"time"

	"github.com/0xReLogic/Helios/internal/config"
	"github.com/0xReLogic/Helios/internal/loadbalancer"
	"github.com/0xReLogic/Helios/internal/logging"
	"github.com/0xReLogic/Helios/internal/plugins"
)

type kase struct {
	Kind string            `json:"kind"`
	Cfg  map[string]string `json:"cfg"`
	Path string            `json:"path"`
}

var yamlOf = map[string]map[string]string{
	"port": {"8080": "  port: 8080\n", "1": "  port: 1\n", "65535": "  port: 65535\n", "i_0": "  port: 0\n", "i_neg": "  port: -1\n", "i_65536": "  port: 65536\n"},
	"tls": {"off": "  tls:\n    enabled: false\n", "on_files": "  tls:\n    enabled: true\n    certFile: \"certs/cert.pem\"\n    keyFile: \"certs/key.pem\"\n",
		"i_nocert": "  tls:\n    enabled: true\n    keyFile: \"certs/key.pem\"\n", "i_nokey": "  tls:\n    enabled: true\n    certFile: \"certs/cert.pem\"\n"},
	"timeouts": {"none": "", "all": "  timeouts:\n    read: 15\n    write: 15\n    idle: 60\n    handler: 30\n    shutdown: 30\n    backend_dial: 10\n    backend_read: 30\n    backend_idle: 90\n",
		"zeros":      "  timeouts:\n    read: 0\n    write: 0\n    idle: 0\n    handler: 0\n    shutdown: 0\n    backend_dial: 0\n    backend_read: 0\n    backend_idle: 0\n",
		"i_read_neg": "  timeouts:\n    read: -1\n", "i_dial_neg": "  timeouts:\n    backend_dial: -5\n", "i_shutdown_neg": "  timeouts:\n    shutdown: -1\n", "i_handler_neg": "  timeouts:\n    handler: -2\n"},
	"backends": {"one": "backends:\n  - name: \"s1\"\n    address: \"http://127.0.0.1:18081\"\n",
		"three_weighted": "backends:\n  - name: \"s1\"\n    address: \"http://127.0.0.1:18081\"\n    weight: 5\n  - name: \"s2\"\n    address: \"http://127.0.0.1:18082\"\n    weight: 2\n  - name: \"s3\"\n    address: \"http://127.0.0.1:18083\"\n    weight: 1\n",
		"weight0":        "backends:\n  - name: \"s1\"\n    address: \"http://127.0.0.1:18081\"\n    weight: 0\n",
		"i_none":         "backends: []\n",
		"i_noname":       "backends:\n  - address: \"http://127.0.0.1:18081\"\n", "i_noaddr": "backends:\n  - name: \"s1\"\n",
		"i_weight_neg": "backends:\n  - name: \"s1\"\n    address: \"http://127.0.0.1:18081\"\n    weight: -1\n"},
	"strategy": {"round_robin": "  strategy: \"round_robin\"\n", "least_connections": "  strategy: \"least_connections\"\n", "weighted_round_robin": "  strategy: \"weighted_round_robin\"\n",
		"ip_hash": "  strategy: \"ip_hash\"\n", "ip_hash_consistent": "  strategy: \"ip_hash_consistent\"\n", "unset": "", "i_random": "  strategy: \"random\"\n"},
	"wspool": {"off": "", "on": "  websocket_pool:\n    enabled: true\n    max_idle: 10\n    max_active: 100\n    idle_timeout_seconds: 300\n",
		"on_active0":       "  websocket_pool:\n    enabled: true\n    max_idle: 10\n    max_active: 0\n    idle_timeout_seconds: 300\n",
		"on_zeros":         "  websocket_pool:\n    enabled: true\n    max_idle: 0\n    max_active: 0\n    idle_timeout_seconds: 0\n",
		"i_idle_gt_active": "  websocket_pool:\n    enabled: true\n    max_idle: 20\n    max_active: 10\n", "i_neg_idle": "  websocket_pool:\n    enabled: true\n    max_idle: -1\n",
		"i_neg_timeout": "  websocket_pool:\n    enabled: true\n    idle_timeout_seconds: -5\n"},
	"active": {"off": "  active:\n    enabled: false\n", "on": "  active:\n    enabled: true\n    interval: 10\n    timeout: 7\n    path: \"/\"\n",
		"i_interval0": "  active:\n    enabled: true\n    interval: 0\n    timeout: 7\n    path: \"/\"\n", "i_timeout0": "  active:\n    enabled: true\n    interval: 10\n    timeout: 0\n    path: \"/\"\n",
		"i_timeout_ge_interval": "  active:\n    enabled: true\n    interval: 5\n    timeout: 5\n    path: \"/\"\n", "i_nopath": "  active:\n    enabled: true\n    interval: 10\n    timeout: 7\n"},
	"passive": {"off": "  passive:\n    enabled: false\n", "on": "  passive:\n    enabled: true\n    unhealthy_threshold: 3\n    unhealthy_timeout: 30\n",
		"i_thr0": "  passive:\n    enabled: true\n    unhealthy_threshold: 0\n    unhealthy_timeout: 30\n", "i_timeout0": "  passive:\n    enabled: true\n    unhealthy_threshold: 3\n    unhealthy_timeout: 0\n"},
	"ratelimit": {"off": "", "on": "rate_limit:\n  enabled: true\n  max_tokens: 100\n  refill_rate_seconds: 1\n",
		"i_max0": "rate_limit:\n  enabled: true\n  max_tokens: 0\n  refill_rate_seconds: 1\n", "i_refill0": "rate_limit:\n  enabled: true\n  max_tokens: 100\n  refill_rate_seconds: 0\n"},
	"breaker": {"off": "", "on": "circuit_breaker:\n  enabled: true\n  max_requests: 5\n  interval_seconds: 60\n  timeout_seconds: 60\n  failure_threshold: 5\n  success_threshold: 2\n",
		"on_mr0":     "circuit_breaker:\n  enabled: true\n  interval_seconds: 60\n  timeout_seconds: 60\n  failure_threshold: 5\n  success_threshold: 2\n",
		"i_ft0":      "circuit_breaker:\n  enabled: true\n  max_requests: 5\n  interval_seconds: 60\n  timeout_seconds: 60\n  failure_threshold: 0\n  success_threshold: 2\n",
		"i_st0":      "circuit_breaker:\n  enabled: true\n  max_requests: 5\n  interval_seconds: 60\n  timeout_seconds: 60\n  failure_threshold: 5\n  success_threshold: 0\n",
		"i_to0":      "circuit_breaker:\n  enabled: true\n  max_requests: 5\n  interval_seconds: 60\n  timeout_seconds: 0\n  failure_threshold: 5\n  success_threshold: 2\n",
		"i_iv0":      "circuit_breaker:\n  enabled: true\n  max_requests: 5\n  interval_seconds: 0\n  timeout_seconds: 60\n  failure_threshold: 5\n  success_threshold: 2\n",
		"i_mr_lt_st": "circuit_breaker:\n  enabled: true\n  max_requests: 1\n  interval_seconds: 60\n  timeout_seconds: 60\n  failure_threshold: 5\n  success_threshold: 3\n"},
	"metrics": {"off": "", "off_port19091": "metrics:\n  enabled: false\n  port: 19091\n  path: \"/metrics\"\n", "on": "metrics:\n  enabled: true\n  port: 19090\n  path: \"/metrics\"\n", "i_port0": "metrics:\n  enabled: true\n  port: 0\n  path: \"/metrics\"\n", "i_nopath": "metrics:\n  enabled: true\n  port: 19090\n",
		"n_health_path": "metrics:\n  enabled: true\n  port: 19090\n  path: \"/health\"\n", "n_brace_path": "metrics:\n  enabled: true\n  port: 19090\n  path: \"/m{x\"\n",
		"n_noslash_path": "metrics:\n  enabled: true\n  port: 19090\n  path: \"metrics\"\n"},
	"admin": {"off": "", "off_port8080": "admin_api:\n  enabled: false\n  port: 8080\n", "on": "admin_api:\n  enabled: true\n  port: 19091\n  auth_token: \"change-me\"\n",
		"on_lists": "admin_api:\n  enabled: true\n  port: 19091\n  ip_allow_list:\n    - \"127.0.0.1\"\n    - \"192.168.1.0/24\"\n  ip_deny_list:\n    - \"203.0.113.0/24\"\n",
		"i_port":   "admin_api:\n  enabled: true\n  port: 70000\n"},
	"loglevel":  {"info": "  level: \"info\"\n", "debug": "  level: \"debug\"\n", "warn": "  level: \"warn\"\n", "error": "  level: \"error\"\n", "fatal": "  level: \"fatal\"\n", "unset": "", "i_verbose": "  level: \"verbose\"\n"},
	"logformat": {"json": "  format: \"json\"\n", "console": "  format: \"console\"\n", "text": "  format: \"text\"\n", "unset": "", "i_xml": "  format: \"xml\"\n"},
	"plugins": {"off": "",
		"sample_chain":     "plugins:\n  enabled: true\n  chain:\n    - name: logging\n    - name: size_limit\n      config:\n        max_request_body: 10485760\n        max_response_body: 52428800\n    - name: gzip\n      config:\n        level: 5\n        min_size: 1024\n        content_types:\n          - \"text/html\"\n          - \"application/json\"\n    - name: headers\n      config:\n        set:\n          X-App: Helios\n        request_set:\n          X-From: LB\n",
		"size_int":         "plugins:\n  enabled: true\n  chain:\n    - name: size_limit\n      config:\n        max_request_body: 1048576\n",
		"gzip_int_level":   "plugins:\n  enabled: true\n  chain:\n    - name: gzip\n      config:\n        level: 6\n        min_size: 1024\n        content_types:\n          - \"text/html\"\n",
		"gzip_float_level": "plugins:\n  enabled: true\n  chain:\n    - name: gzip\n      config:\n        level: 6.0\n        min_size: 1024.0\n        content_types:\n          - \"text/html\"\n",
		"auth":             "plugins:\n  enabled: true\n  chain:\n    - name: custom-auth\n      config:\n        apiKey: \"secret\"\n",
		"u_unknown":        "plugins:\n  enabled: true\n  chain:\n    - name: no-such-plugin\n",
		"u_gzip_nolevel":   "plugins:\n  enabled: true\n  chain:\n    - name: gzip\n      config:\n        min_size: 1024\n        content_types:\n          - \"text/html\"\n"},
}

func render(c map[string]string) string {
	get := func(s string) string {
		v, ok := yamlOf[s][c[s]]
		if !ok {
			panic("no YAML for " + s + "=" + c[s])
		}
		return v
	}
	var sb strings.Builder
	sb.WriteString("server:\n" + get("port") + get("tls") + get("timeouts"))
	sb.WriteString(get("backends"))
	lbs := get("strategy") + get("wspool")
	if lbs != "" {
		sb.WriteString("load_balancer:\n" + lbs)
	}
	sb.WriteString("health_checks:\n" + get("active") + get("passive"))
	sb.WriteString(get("ratelimit") + get("breaker") + get("metrics") + get("admin"))
	lg := get("loglevel") + get("logformat")
	if lg != "" {
		sb.WriteString("logging:\n" + lg)
	}
	sb.WriteString(get("plugins"))
	return sb.String()
}

func start(cfg *config.Config) (res string, detail string) {
	defer func() {
		if r := recover(); r != nil {
			res, detail = "panic", fmt.Sprint(r)
		}
	}()
	logging.Init(cfg.Logging)
	logging.Init(config.LoggingConfig{Level: "fatal", Format: "json"})
	lb, err := loadbalancer.NewLoadBalancer(cfg)
	if err != nil {
		return "err", err.Error()
	}
	defer lb.Stop()
	if cfg.Plugins.Enabled && len(cfg.Plugins.Chain) > 0 {
		if _, err := plugins.BuildChain(cfg.Plugins, lb); err != nil {
			return "err", err.Error()
		}
	}
	return "ok", ""
}

// runBinary starts the real cmd/helios binary (path in HELIOS_BIN) with the configuration file and looks at it
// after a moment: still running, ended with an error, or crashed with a Go panic
func runBinary(cfgPath string) (string, string) {
	bin := os.Getenv("HELIOS_BIN")
	if bin == "" {
		return "skipped", ""
	}
	var stderr bytes.Buffer
	cmd := exec.Command(bin, "-config", cfgPath)
	cmd.Stderr = &stderr
	cmd.Stdout = &stderr
	if err := cmd.Start(); err != nil {
		return "skipped", err.Error()
	}
	done := make(chan error, 1)
	go func() { done <- cmd.Wait() }()
	select {
	case <-done:
		out := stderr.String()
		if strings.Contains(out, "panic:") && strings.Contains(out, "goroutine ") {
			i := strings.Index(out, "panic:")
			end := i + 200
			if end > len(out) {
				end = len(out)
			}
			return "panic", out[i:end]
		}
		if len(out) > 200 {
			out = out[len(out)-200:]
		}
		return "exit_err", out
	case <-time.After(900 * time.Millisecond):
		cmd.Process.Signal(syscall.SIGTERM)
		select {
		case <-done:
		case <-time.After(5 * time.Second):
			cmd.Process.Kill()
			<-done
		}
		return "running", ""
	}
}

func freePort() int {
	ln, err := net.Listen("tcp", "127.0.0.1:0")
	if err != nil {
		return 18080
	}
	defer ln.Close()
	return ln.Addr().(*net.TCPAddr).Port
}

func load(path string) (cfg *config.Config, res string, detail string) {
	defer func() {
		if r := recover(); r != nil {
			res, detail = "panic", fmt.Sprint(r)
		}
	}()
	c, err := config.LoadConfig(path)
	if err != nil {
		return nil, "err", err.Error()
	}
	return c, "ok", ""
}

func main() {
	in, err := os.Open(os.Args[1])
	if err != nil {
		panic(err)
	}
	of, err := os.Create(os.Args[2])
	if err != nil {
		panic(err)
	}
	tmp := filepath.Dir(os.Args[2])
	out := bufio.NewWriterSize(of, 1<<20)
	dec := json.NewDecoder(bufio.NewReaderSize(in, 1<<20))
	n := 0
	for dec.More() {
		var raw json.RawMessage
		if err := dec.Decode(&raw); err != nil {
			panic(err)
		}
		var k kase
		json.Unmarshal(raw, &k)
		path := k.Path
		if k.Kind == "cfg" || k.Kind == "proc" {
			path = filepath.Join(tmp, "case.yaml")
			y := render(k.Cfg)
			if k.Kind == "proc" {
				// the binary really listens: give it ports nobody else on this machine is using right now
				y = strings.Replace(y, "  port: 8080\n", fmt.Sprintf("  port: %d\n", freePort()), 1)
				y = strings.Replace(y, "  port: 19090\n", fmt.Sprintf("  port: %d\n", freePort()), 1)
				y = strings.Replace(y, "  port: 19091\n", fmt.Sprintf("  port: %d\n", freePort()), 1)
			}
			os.WriteFile(path, []byte(y), 0o644)
		}
		o := map[string]any{"load": "ok", "start": "skipped", "detail": ""}
		cfg, res, detail := load(path)
		o["load"], o["detail"] = res, detail
		if k.Kind == "proc" {
			o["proc"] = "skipped"
			if res == "ok" {
				o["proc"], o["detail"] = runBinary(path)
			}
		} else if res == "ok" {
			s, d := start(cfg)
			o["start"] = s
			if d != "" {
				o["detail"] = d
			}
		}
		ob, _ := json.Marshal(o)
		fmt.Fprintf(out, "{\"c\":%s,\"o\":%s}\n", string(raw), string(ob))
		n++
	}
	out.Flush()
	of.Close()
	os.WriteFile(os.Args[2]+".ok", []byte(fmt.Sprint(n)), 0o644)
}
