// poolsim -- replay harness for the WebSocket connection pool (C20, pool
// clauses).  Scripts from spec/WsPool.tla are executed on a real
// loadbalancer.WebSocketPool with fake net.Conns under virtual time: one tick
// is 10 s, driver ticks are offset by 5 s so the pool's 30 s cleanup ticker
// fires between two ticks, idle_timeout of k ticks is configured as 10k+2 s.
package main

import (
	"bufio"
	"encoding/json"
	"fmt"
	"net"
	"os"
	"runtime"
	"runtime/debug"
	"time"

	"github.com/0xReLogic/Helios/internal/config"
	"github.com/0xReLogic/Helios/internal/loadbalancer"
	"github.com/0xReLogic/Helios/internal/logging"
)

type fakeConn struct {
	id     int
	closed bool
}

func (c *fakeConn) Read(b []byte) (int, error)         { return 0, fmt.Errorf("fake") }
func (c *fakeConn) Write(b []byte) (int, error)        { return len(b), nil }
func (c *fakeConn) Close() error                       { c.closed = true; return nil }
func (c *fakeConn) LocalAddr() net.Addr                { return &net.TCPAddr{} }
func (c *fakeConn) RemoteAddr() net.Addr               { return &net.TCPAddr{} }
func (c *fakeConn) SetDeadline(t time.Time) error      { return nil }
func (c *fakeConn) SetReadDeadline(t time.Time) error  { return nil }
func (c *fakeConn) SetWriteDeadline(t time.Time) error { return nil }

type cfg struct {
	MaxIdle int `json:"maxidle"`
	TO      int `json:"to"`
}
type step struct {
	A string `json:"a"`
	B int    `json:"b"`
	C int    `json:"c"`
}
type script struct {
	ID    string `json:"id"`
	Cf    cfg    `json:"cf"`
	Steps []step `json:"steps"`
}

const tick = 10 * time.Second

var out *bufio.Writer

func emit(v map[string]any) {
	b, _ := json.Marshal(v)
	out.Write(b)
	out.WriteByte('\n')
}

func run(sc script) {
	pool := loadbalancer.NewWebSocketPool(sc.Cf.MaxIdle, 100, time.Duration(sc.Cf.TO)*tick+2*time.Second)
	time.Sleep(tick / 2)
	emit(map[string]any{"ev": "cfg", "id": sc.ID, "cf": sc.Cf})
	conns := map[int]*fakeConn{}
	byPtr := map[net.Conn]int{}
	get := func(id int) *fakeConn {
		if c, ok := conns[id]; ok {
			return c
		}
		c := &fakeConn{id: id}
		conns[id] = c
		byPtr[c] = id
		return c
	}
	bname := func(b int) string { return fmt.Sprintf("backend-%d", b) }
	for _, st := range sc.Steps {
		switch st.A {
		case "tick":
			emit(map[string]any{"ev": "tick", "n": 1})
			time.Sleep(tick)
		case "put":
			c := get(st.C)
			kept := pool.Put(bname(st.B), c)
			emit(map[string]any{"ev": "put", "b": st.B, "c": st.C, "kept": kept, "closed": c.closed})
		case "get":
			got := pool.Get(bname(st.B))
			id, closed := 0, false
			if got != nil {
				id = byPtr[got]
				closed = conns[id].closed
			}
			emit(map[string]any{"ev": "get", "b": st.B, "c": id, "closed": closed})
		case "close":
			c := get(st.C)
			pool.Close(bname(st.B), c)
			emit(map[string]any{"ev": "close", "b": st.B, "c": st.C})
		case "stats":
			idle, active := pool.Stats(bname(st.B))
			emit(map[string]any{"ev": "stats", "b": st.B, "idle": idle, "active": active})
		case "shutdown":
			pool.Shutdown()
			open := []int{}
			for id, c := range conns {
				if !c.closed {
					open = append(open, id)
				}
			}
			emit(map[string]any{"ev": "shutdown", "open": open})
		}
	}
}

func main() {
	debug.SetGCPercent(-1)
	runtime.GOMAXPROCS(1)
	logging.Init(config.LoggingConfig{Level: "fatal", Format: "json"})
	in, err := os.Open(os.Args[1])
	if err != nil {
		panic(err)
	}
	of, err := os.Create(os.Args[2])
	if err != nil {
		panic(err)
	}
	out = bufio.NewWriterSize(of, 1<<20)
	dec := json.NewDecoder(bufio.NewReaderSize(in, 1<<20))
	n := 0
	for dec.More() {
		var sc script
		if err := dec.Decode(&sc); err != nil {
			panic(err)
		}
		run(sc)
		n++
	}
	out.Flush()
	of.Close()
	os.WriteFile(os.Args[2]+".ok", []byte(fmt.Sprint(n)), 0o644)
}
