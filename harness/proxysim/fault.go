package main

import (
	"bufio"
	"bytes"
	"compress/gzip"
	"encoding/json"
	"fmt"
	"io"
	"net"
	"net/http"
	"strings"
	"sync"
	"time"

	"github.com/0xReLogic/Helios/internal/config"
)

// ---------------------------------------------------------------- raw scripted backend (faults)

// The fault a request asks for travels in its X-Fault header; the backend is a
// raw TCP server so that it can misbehave below the HTTP layer.
func faultBackend(ln net.Listener) {
	for {
		c, err := ln.Accept()
		if err != nil {
			return
		}
		go func(c net.Conn) {
			defer c.Close()
			br := bufio.NewReader(c)
			for {
				c.SetReadDeadline(time.Now().Add(30 * time.Second))
				req, err := http.ReadRequest(br)
				if err != nil {
					return
				}
				fault := req.Header.Get("X-Fault")
				if fault != "client_abort_up" {
					io.Copy(io.Discard, req.Body)
				}
				switch fault {
				case "refuse":
					if tc, ok := c.(*net.TCPConn); ok {
						tc.SetLinger(0)
					}
					return
				case "hang_headers":
					time.Sleep(8 * time.Second)
					return
				case "reset_after_headers":
					c.Write([]byte("HTTP/1.1 200 OK\r\nContent-Type: text/plain\r\nContent-Length: 100\r\n\r\n"))
					if tc, ok := c.(*net.TCPConn); ok {
						tc.SetLinger(0)
					}
					return
				case "short_body":
					c.Write([]byte("HTTP/1.1 200 OK\r\nContent-Type: text/plain\r\nContent-Length: 100\r\n\r\n0123456789"))
					return
				case "garbage":
					c.Write([]byte("SSH-2.0-NotHTTP\r\n\x00\x01\x02garbage\r\n\r\n"))
					return
				case "stall_body", "stall_body_upgrade":
					c.Write([]byte("HTTP/1.1 200 OK\r\nContent-Type: text/plain\r\nContent-Length: 100\r\n\r\n0123456789"))
					time.Sleep(9 * time.Second)
					return
				case "s500":
					c.Write([]byte("HTTP/1.1 500 Internal Server Error\r\nContent-Type: text/plain\r\nContent-Length: 4\r\n\r\nboom"))
				case "slow_body":
					c.Write([]byte("HTTP/1.1 200 OK\r\nContent-Type: text/plain\r\nContent-Length: 40\r\n\r\n"))
					for i := 0; i < 4; i++ {
						time.Sleep(250 * time.Millisecond)
						c.Write([]byte("0123456789"))
					}
				case "client_abort_up":
					io.Copy(io.Discard, req.Body) // ends with an error when the client goes away
					return
				case "client_abort_down":
					c.Write([]byte("HTTP/1.1 200 OK\r\nContent-Type: text/plain\r\nContent-Length: 4000000\r\n\r\n"))
					chunk := []byte(strings.Repeat("x", 64<<10))
					for i := 0; i < 61; i++ {
						c.SetWriteDeadline(time.Now().Add(3 * time.Second))
						if _, err := c.Write(chunk); err != nil {
							return
						}
					}
					return
				default:
					c.Write([]byte("HTTP/1.1 200 OK\r\nContent-Type: text/plain\r\nContent-Length: 2\r\n\r\nok"))
				}
			}
		}(c)
	}
}

type faultCase struct {
	Faults   []string `json:"faults"`
	Strategy string   `json:"strategy"`
	Solo     bool     `json:"solo"` // run alone (no other exchange in the process), healthy exchange right after the fault
	Dead     string   `json:"dead"` // active checks on, a third backend that is down in this way ("none": no such backend)
	F        struct {
		CB      bool `json:"cb"`
		RL      bool `json:"rl"`
		Passive bool `json:"passive"`
		Plugins bool `json:"plugins"`
	} `json:"f"`
}

var (
	fbOnce sync.Once
	fbAddr []string
)

func faultBackends() []string {
	fbOnce.Do(func() {
		for i := 0; i < 2; i++ {
			ln, err := net.Listen("tcp", "127.0.0.1:0")
			if err != nil {
				panic(err)
			}
			go faultBackend(ln)
			fbAddr = append(fbAddr, ln.Addr().String())
		}
	})
	return fbAddr
}

func oneRequest(addr, fault string) map[string]any {
	return oneRequestWithin(addr, fault, 13*time.Second)
}

// once one exchange of a case never ended the verdict of the case is settled; what follows is still recorded, but
// does not wait the full bound again
func oneRequestWithin(addr, fault string, bound time.Duration) map[string]any {
	t0 := time.Now()
	res := map[string]any{"ended": false, "ms": 0, "outcome": "none"}
	done := make(chan string, 1)
	go func() {
		conn, err := dial(addr)
		if err != nil {
			done <- "dial-error"
			return
		}
		defer conn.c.Close()
		conn.c.SetDeadline(time.Now().Add(12 * time.Second))
		switch fault {
		case "client_abort_up":
			fmt.Fprintf(conn.c, "POST /up HTTP/1.1\r\nHost: h\r\nX-Fault: %s\r\nContent-Length: 100000\r\n\r\n%s", fault, strings.Repeat("u", 1000))
			time.Sleep(50 * time.Millisecond)
			done <- "client-aborted"
			return
		case "client_abort_down":
			fmt.Fprintf(conn.c, "GET /down HTTP/1.1\r\nHost: h\r\nX-Fault: %s\r\n\r\n", fault)
			buf := make([]byte, 4096)
			conn.br.Read(buf)
			done <- "client-aborted"
			return
		}
		extra := ""
		if fault == "stall_body_upgrade" {
			extra = "Connection: Upgrade\r\nUpgrade: x-bogus\r\n"
		}
		// clients accept gzip (the gzip plugin, where configured, is then active on the exchange)
		fmt.Fprintf(conn.c, "GET /f HTTP/1.1\r\nHost: h\r\nAccept-Encoding: gzip\r\nX-Fault: %s\r\n%s\r\n", fault, extra)
		resp, err := http.ReadResponse(conn.br, &http.Request{Method: "GET"})
		if err != nil {
			done <- "closed"
			return
		}
		body, rerr := io.ReadAll(resp.Body)
		resp.Body.Close()
		if rerr == nil && resp.Header.Get("Content-Encoding") == "gzip" {
			if zr, err := gzip.NewReader(bytes.NewReader(body)); err == nil {
				body, _ = io.ReadAll(zr)
			}
		}
		switch {
		case rerr != nil:
			done <- fmt.Sprintf("status-%d-truncated", resp.StatusCode)
		case fault == "none" && resp.StatusCode == 200 && string(body) != "ok":
			// a healthy exchange must carry the healthy backend's body and nothing else
			done <- fmt.Sprintf("wrongbody-%d-bytes", len(body))
		default:
			done <- fmt.Sprintf("status-%d", resp.StatusCode)
		}
	}()
	select {
	case oc := <-done:
		res["ended"], res["outcome"] = true, oc
	case <-time.After(bound):
		res["outcome"] = "stuck"
	}
	res["ms"] = int(time.Since(t0) / time.Millisecond)
	return res
}

func runFault(idx int, raw json.RawMessage, seed int64) map[string]any {
	var c faultCase
	json.Unmarshal(raw, &c)
	cfg := baseConfig(c.Strategy, faultBackends(), "")
	cfg.Server.Timeouts = config.TimeoutConfig{Read: 2, Write: 3, Idle: 5, Handler: 4, BackendDial: 1, BackendRead: 1, BackendIdle: 5}
	if c.F.Passive {
		cfg.HealthChecks.Passive = config.PassiveHealthCheckConfig{Enabled: true, UnhealthyThreshold: 2, UnhealthyTimeout: 1}
	}
	if c.F.CB {
		cfg.CircuitBreaker = config.CircuitBreakerConfig{Enabled: true, MaxRequests: 1, FailureThreshold: 2, SuccessThreshold: 1, IntervalSeconds: 30, TimeoutSeconds: 1}
	}
	if c.F.RL {
		cfg.RateLimit = config.RateLimitConfig{Enabled: true, MaxTokens: 50, RefillRate: 1}
	}
	if c.F.Plugins {
		cfg.Plugins.Enabled = true
		cfg.Plugins.Chain = []config.PluginConfig{pluginCfg("logging"), pluginCfg("size_limit"), pluginCfg("gzip"), pluginCfg("headers")}
		cfg.Logging.RequestID.Enabled = true
	}
	if c.Dead != "" && c.Dead != "none" {
		cfg.Backends = append(cfg.Backends, config.BackendConfig{Name: "b3", Address: "http://" + deadBackend(c.Dead), Weight: 1})
		cfg.HealthChecks.Active = config.ActiveHealthCheckConfig{Enabled: true, Interval: 2, Timeout: 1, Path: "/healthz"}
		// the window of probe ejections is this setting whether or not passive checks are enabled
		cfg.HealthChecks.Passive.UnhealthyTimeout = 30
		if !c.F.Passive {
			cfg.HealthChecks.Passive.UnhealthyThreshold = 2
		}
	}
	h, err := startHelios(cfg)
	if err != nil {
		return map[string]any{"reqs": []any{}, "probe": 0, "second": 0, "gauges": false, "error": err.Error(),
			"died": strings.Contains(err.Error(), "exited by itself")}
	}
	if c.Dead != "" && c.Dead != "none" {
		time.Sleep(1500 * time.Millisecond) // first probe round (incl. its 1 s timeout) is over
	}
	if h.lb == nil {
		// the real process: nothing to stop in here, no gauges to read
		defer h.kill()
		return faultExchanges(h, c, false)
	}
	defer func() {
		h.srv.Close()
		// a wedged balancer must not wedge the harness as well
		fin := make(chan struct{})
		go func() { h.lb.Stop(); close(fin) }()
		select {
		case <-fin:
		case <-time.After(3 * time.Second):
		}
	}()
	return faultExchanges(h, c, true)
}

func faultExchanges(h *helios, c faultCase, gauges bool) map[string]any {
	reqs := []any{}
	bound := 13 * time.Second
	for _, f := range c.Faults {
		if f == "wait" {
			time.Sleep(1200 * time.Millisecond)
			continue
		}
		r := oneRequestWithin(h.addr, f, bound)
		if r["outcome"] == "stuck" {
			bound = 1500 * time.Millisecond
		}
		reqs = append(reqs, r)
	}
	// let ejection windows (1 s) and the breaker timeout (1 s) pass
	if !c.Solo {
		time.Sleep(1300 * time.Millisecond)
	}
	probe := func() int {
		r := oneRequestWithin(h.addr, "none", bound)
		var st int
		fmt.Sscanf(fmt.Sprint(r["outcome"]), "status-%d", &st)
		return st
	}
	p1 := probe()
	// the proxy now passes response bytes on as they arrive, so the client can hold the complete answer a moment
	// before the breaker has booked the half-open trial as finished; the second probe is about the state after that
	time.Sleep(150 * time.Millisecond)
	p2 := probe()
	time.Sleep(50 * time.Millisecond)
	gz := true
	if !gauges {
		return map[string]any{"reqs": reqs, "probe": p1, "second": p2, "gauges": true, "died": h.died()}
	}
	lst := make(chan []int32, 1)
	go func() {
		a := []int32{}
		for _, b := range h.lb.ListBackends() {
			a = append(a, b.ActiveConnections)
		}
		lst <- a
	}()
	select {
	case a := <-lst:
		for _, n := range a {
			if n != 0 {
				gz = false
			}
		}
	case <-time.After(3 * time.Second):
		gz = false // the listing itself never returned
	}
	return map[string]any{"reqs": reqs, "probe": p1, "second": p2, "gauges": gz, "died": false}
}

var (
	deadMu   sync.Mutex
	deadAddr = map[string]string{}
)

// deadBackend: the address of a backend that is down in the given way for as long as the harness runs
func deadBackend(kind string) string {
	deadMu.Lock()
	defer deadMu.Unlock()
	if a, ok := deadAddr[kind]; ok {
		return a
	}
	ln, err := net.Listen("tcp", "127.0.0.1:0")
	if err != nil {
		panic(err)
	}
	a := ln.Addr().String()
	switch kind {
	case "refuse":
		ln.Close() // nobody listens there any more
	case "hang":
		go func() {
			for {
				c, err := ln.Accept()
				if err != nil {
					return
				}
				go func() { time.Sleep(30 * time.Second); c.Close() }()
			}
		}()
	case "garbage":
		go func() {
			for {
				c, err := ln.Accept()
				if err != nil {
					return
				}
				go func() { c.Write([]byte("\x00\x01 not http at all\r\n\r\n")); c.Close() }()
			}
		}()
	}
	deadAddr[kind] = a
	return a
}
