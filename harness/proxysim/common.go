// proxysim -- socket-level harness (H3) for the whole proxy: a real
// http.Server configured like cmd/helios' createHTTPServer, serving the real
// handler composition (request-context middleware -> plugin chain -> balancer)
// in front of real scripted backends on loopback, driven by a raw TCP client.
// Modes (one per case kind): relay (C01), fault (C03), ws (C20 tunnels),
// drain (C19).  Everything observed is written next to the case; TLC judges.
package main

import (
	"bufio"
	"crypto/sha256"
	"encoding/hex"
	"fmt"
	"net"
	"net/http"
	"net/http/httputil"
	"net/url"
	"os"
	"os/exec"
	"sort"
	"strings"
	"sync"
	"time"

	"github.com/0xReLogic/Helios/internal/config"
	"github.com/0xReLogic/Helios/internal/loadbalancer"
	"github.com/0xReLogic/Helios/internal/logging"
	"github.com/0xReLogic/Helios/internal/plugins"
	"gopkg.in/yaml.v3"
)

func digest(b []byte) string {
	h := sha256.Sum256(b)
	return fmt.Sprintf("%d:%s", len(b), hex.EncodeToString(h[:8]))
}

type hv struct {
	N string `json:"n"`
	V string `json:"v"`
}

var hopByHop = map[string]bool{"connection": true, "proxy-connection": true, "keep-alive": true, "proxy-authenticate": true,
	"proxy-authorization": true, "te": true, "trailer": true, "transfer-encoding": true, "upgrade": true,
	"content-length": true, "date": true}

func headerSet(h http.Header, skipPrefix string) []hv {
	res := []hv{}
	for k, vs := range h {
		lk := strings.ToLower(k)
		if hopByHop[lk] || (skipPrefix != "" && strings.HasPrefix(lk, skipPrefix)) {
			continue
		}
		for _, v := range vs {
			res = append(res, hv{lk, v})
		}
	}
	sort.Slice(res, func(i, j int) bool { return res[i].N+"\x00"+res[i].V < res[j].N+"\x00"+res[j].V })
	return res
}

// ---------------------------------------------------------------- Helios instances

type heliosKey struct {
	strategy, ids, plugin, base string
	extra                       string
}

type helios struct {
	addr   string
	lb     *loadbalancer.LoadBalancer
	srv    *http.Server
	cfg    *config.Config
	proc   *exec.Cmd     // process mode only
	exited chan struct{} // closed when the process has ended
}

func (h *helios) kill() {
	if h.proc != nil {
		h.proc.Process.Kill()
		<-h.exited
	}
}

// died: the process ended although nobody asked it to
func (h *helios) died() bool {
	if h.proc == nil {
		return false
	}
	select {
	case <-h.exited:
		return true
	default:
		return false
	}
}

var (
	heliosMu  sync.Mutex
	heliosMap = map[heliosKey]*helios{}
)

// startHelios builds the proxy exactly as cmd/helios does (LoadBalancer, plugin chain, request
// context middleware, http.Server with the configured timeouts) on a loopback listener
var (
	procMu sync.Mutex
	procs  []*exec.Cmd
)

// startHeliosProcess runs the real cmd/helios binary (PROXYSIM_BIN) with the configuration rendered to YAML: its own
// handler composition, server construction and timeouts, nothing replicated
func startHeliosProcess(cfg *config.Config) (*helios, error) {
	ln, err := net.Listen("tcp", "127.0.0.1:0")
	if err != nil {
		return nil, err
	}
	port := ln.Addr().(*net.TCPAddr).Port
	ln.Close()
	c2 := *cfg
	c2.Server.Port = port
	y, err := yaml.Marshal(&c2)
	if err != nil {
		return nil, err
	}
	f, err := os.CreateTemp("", "proxysim-*.yaml")
	if err != nil {
		return nil, err
	}
	f.Write(y)
	f.Close()
	cmd := exec.Command(os.Getenv("PROXYSIM_BIN"), "-config", f.Name())
	if err := cmd.Start(); err != nil {
		return nil, err
	}
	exited := make(chan struct{})
	go func() { cmd.Wait(); close(exited) }()
	procMu.Lock()
	procs = append(procs, cmd)
	procMu.Unlock()
	addr := fmt.Sprintf("127.0.0.1:%d", port)
	for i := 0; i < 200; i++ {
		if c, err := net.DialTimeout("tcp", addr, 200*time.Millisecond); err == nil {
			c.Close()
			os.Remove(f.Name())
			return &helios{addr: addr, cfg: cfg, proc: cmd, exited: exited}, nil
		}
		select {
		case <-exited:
			os.Remove(f.Name())
			return nil, fmt.Errorf("helios process exited by itself: %v", cmd.ProcessState)
		case <-time.After(25 * time.Millisecond):
		}
	}
	return nil, fmt.Errorf("helios process did not start listening on %s", addr)
}

func killProcesses() {
	procMu.Lock()
	defer procMu.Unlock()
	for _, c := range procs {
		c.Process.Kill()
	}
}

func startHelios(cfg *config.Config) (*helios, error) {
	if os.Getenv("PROXYSIM_BIN") != "" {
		return startHeliosProcess(cfg)
	}
	lb, err := loadbalancer.NewLoadBalancer(cfg)
	if err != nil {
		return nil, err
	}
	var h http.Handler = lb
	if cfg.Plugins.Enabled && len(cfg.Plugins.Chain) > 0 {
		ch, err := plugins.BuildChain(cfg.Plugins, h)
		if err != nil {
			return nil, err
		}
		h = ch
	}
	h = logging.RequestContextMiddleware(cfg.Logging)(h)
	if os.Getenv("PROXYSIM_CONTROL") == "1" {
		// control experiment: a bare stdlib reverse proxy instead of Helios
		u, _ := url.Parse(cfg.Backends[0].Address)
		h = httputil.NewSingleHostReverseProxy(u)
	}
	rt := time.Duration(cfg.Server.Timeouts.Read) * time.Second
	if rt == 0 {
		rt = 15 * time.Second
	}
	wt := time.Duration(cfg.Server.Timeouts.Write) * time.Second
	if wt == 0 {
		wt = 15 * time.Second
	}
	it := time.Duration(cfg.Server.Timeouts.Idle) * time.Second
	if it == 0 {
		it = 60 * time.Second
	}
	srv := &http.Server{Handler: h, ReadTimeout: rt, WriteTimeout: wt, IdleTimeout: it}
	ln, err := net.Listen("tcp", "127.0.0.1:0")
	if err != nil {
		return nil, err
	}
	go srv.Serve(ln)
	return &helios{addr: ln.Addr().String(), lb: lb, srv: srv, cfg: cfg}, nil
}

func baseConfig(strategy string, backends []string, base string) *config.Config {
	c := &config.Config{}
	c.Server.Port = 8080
	for i, a := range backends {
		c.Backends = append(c.Backends, config.BackendConfig{Name: fmt.Sprintf("b%d", i+1), Address: "http://" + a + base, Weight: i + 1})
	}
	c.LoadBalancer.Strategy = strategy
	c.Logging = config.LoggingConfig{Level: "fatal", Format: "json"}
	return c
}

// ---------------------------------------------------------------- raw client helpers

type rawConn struct {
	c  net.Conn
	br *bufio.Reader
}

func dial(addr string) (*rawConn, error) {
	c, err := net.DialTimeout("tcp", addr, 3*time.Second)
	if err != nil {
		return nil, err
	}
	return &rawConn{c: c, br: bufio.NewReaderSize(c, 64<<10)}, nil
}
