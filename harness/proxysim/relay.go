package main

import (
	"bytes"
	"fmt"
	"github.com/0xReLogic/Helios/internal/config"
	"io"
	"math/rand"
	"net"
	"net/http"
	"strings"
	"sync"
	"time"
)

// ---------------------------------------------------------------- scripted backend for relay cases

type relayCase struct {
	id   string
	dims []string
	seed int64
}

func (c *relayCase) d(i int) string { return c.dims[i-1] }

type reqSeen struct {
	Line    string `json:"line"`
	Body    string `json:"body"`
	Framing string `json:"framing"`
	Hdrs    []hv   `json:"hdrs"`
}

type exchangeState struct {
	c      *relayCase
	seen   *reqSeen
	acks   chan struct{} // client acknowledges each streamed chunk
	stream bool          // every flushed chunk was acknowledged before the next was written
}

var (
	exMu sync.Mutex
	exs  = map[string]*exchangeState{} // key: case id + "/" + path ("via" | "direct")
)

func bodyBytes(kind string, seed int64) []byte {
	n := 0
	switch kind {
	case "cl_small", "chunked_small", "chunked_trailer":
		n = 10
	case "cl_32k":
		n = 32768
	case "cl_big":
		n = 100000
	case "chunked_big":
		n = 120000
	case "cl_64k1":
		n = 65537
	}
	b := make([]byte, n)
	rand.New(rand.NewSource(seed)).Read(b)
	return b
}

func respChunks(kind string, seed int64) [][]byte {
	r := rand.New(rand.NewSource(seed + 77))
	mk := func(n int) []byte { b := make([]byte, n); r.Read(b); return b }
	switch kind {
	case "chunked3", "stream3", "cl_stream3":
		return [][]byte{mk(1000), mk(33000), mk(7)}
	case "cl_stream_small":
		return [][]byte{mk(5), mk(4), mk(7)}
	case "sse":
		return [][]byte{[]byte("data: one\n\n"), []byte("data: two\n\n"), []byte("event: x\ndata: three\n\n")}
	}
	return nil
}

func relayBackend(w http.ResponseWriter, r *http.Request) {
	key := r.Header.Get("X-Verif-Key")
	exMu.Lock()
	ex := exs[key]
	exMu.Unlock()
	if ex == nil {
		w.WriteHeader(599)
		return
	}
	c := ex.c
	var body []byte
	// "403early": a backend that decides from the header block alone -- when the client asks first (Expect:
	// 100-continue) it is turned away without its body ever being read, so no "100 Continue" is ever due
	early := c.d(6) == "403early" && r.Header.Get("Expect") != ""
	if !early {
		body, _ = io.ReadAll(r.Body)
	}
	framing := "none"
	if len(r.TransferEncoding) > 0 {
		framing = strings.Join(r.TransferEncoding, ",")
	} else if r.ContentLength > 0 { // "Content-Length: 0" and no body at all are the same framing
		framing = fmt.Sprintf("cl:%d", r.ContentLength)
	}
	ex.seen = &reqSeen{Line: r.Method + " " + r.RequestURI, Body: digest(body), Framing: framing, Hdrs: headerSet(r.Header, "x-verif-")}
	// trailer fields that arrived behind the body are part of what the backend received
	for k, vs := range r.Trailer {
		for _, v := range vs {
			ex.seen.Hdrs = append(ex.seen.Hdrs, hv{N: "trailer:" + strings.ToLower(k), V: v})
		}
	}

	// response
	switch c.d(7) {
	case "plain":
		w.Header().Set("Content-Type", "text/plain; charset=utf-8")
	case "setcookies":
		w.Header().Add("Set-Cookie", "a=1; Path=/")
		w.Header().Add("Set-Cookie", "b=2; HttpOnly")
		w.Header().Set("Content-Type", "text/html")
	case "unusual_ct":
		w.Header().Set("Content-Type", "application/vnd.helios+json;v=2")
		w.Header().Set("X-Custom-Thing", "  spaced value ")
		w.Header().Set("Cache-Control", "no-store")
	case "pre_gzip":
		w.Header().Set("Content-Type", "application/json")
		w.Header().Set("Content-Encoding", "gzip")
	case "no_ct":
		w.Header()["Content-Type"] = nil
	case "own_ids":
		// a backend that stamps identifiers of its own into the reply
		w.Header().Set("Content-Type", "text/plain")
		w.Header().Set("X-Request-ID", "backend-own-rid")
		w.Header().Set("X-Trace-ID", "backend-own-tid")
	}
	status := 200
	if strings.HasPrefix(c.d(6), "103+") {
		// Early Hints before the final response
		w.Header().Set("Link", "</style.css>; rel=preload")
		w.WriteHeader(103)
		w.Header().Del("Link")
		fmt.Sscanf(c.d(6)[4:], "%d", &status)
	} else {
		fmt.Sscanf(c.d(6), "%d", &status)
	}
	if status == 301 {
		w.Header().Set("Location", "/elsewhere?x=1")
	}
	kind := c.d(8)
	if c.d(8) == "sse" {
		w.Header().Set("Content-Type", "text/event-stream")
	}
	bodiless := status == 204 || status == 304 || r.Method == "HEAD"
	switch {
	case bodiless || kind == "none":
		w.WriteHeader(status)
	case kind == "cl_small" || kind == "cl_64k1":
		b := bodyBytes(kind, c.seed+5)
		w.Header().Set("Content-Length", fmt.Sprint(len(b)))
		w.WriteHeader(status)
		w.Write(b)
	default:
		chunks := respChunks(kind, c.seed)
		if kind == "cl_stream3" || kind == "cl_stream_small" {
			// the backend declares the length and still flushes the parts as they become ready
			total := 0
			for _, ch := range chunks {
				total += len(ch)
			}
			w.Header().Set("Content-Length", fmt.Sprint(total))
		}
		w.WriteHeader(status)
		fl, _ := w.(http.Flusher)
		ok := true
		for i, ch := range chunks {
			w.Write(ch)
			if kind == "stream3" || kind == "sse" || kind == "cl_stream3" || kind == "cl_stream_small" {
				if fl != nil {
					fl.Flush()
				}
				if i < len(chunks)-1 && ok {
					select {
					case <-ex.acks:
					case <-time.After(6 * time.Second): // generous: only a chunk that is really held back misses this
						ok = false // the client did not see this chunk before the next one
					}
				}
			}
		}
		ex.stream = ok
	}
}

// ---------------------------------------------------------------- client side of a relay case

type respSeen struct {
	Interim []int  `json:"interim"` // 1xx responses received before the final one (100 Continue excluded)
	Status  int    `json:"status"`
	Hdrs    []hv   `json:"hdrs"`
	Body    string `json:"body"`
	Framing string `json:"framing"`
	First   idv    `json:"first"`  // first value of each ID header on the final response
	Got100  bool   `json:"got100"` // a "100 Continue" arrived before the final response
}

type idv struct {
	Rid string `json:"rid"`
	Tid string `json:"tid"`
}

func firstIDs(h http.Header) idv { return idv{Rid: h.Get("X-Request-ID"), Tid: h.Get("X-Trace-ID")} }

func buildRequest(c *relayCase, key, targetPrefix string) []byte {
	var b bytes.Buffer
	path := c.d(2)
	target := targetPrefix + path
	if q := c.d(3); q != "" {
		target += "?" + q
	}
	fmt.Fprintf(&b, "%s %s HTTP/1.1\r\nHost: helios.test\r\nUser-Agent: verif-client/1.0\r\nX-Verif-Key: %s\r\n", c.d(1), target, key)
	switch c.d(4) {
	case "multi":
		b.WriteString("X-Multi: one\r\nX-Multi: two\r\nAccept: text/html, */*;q=0.8\r\n")
	case "emptyval":
		b.WriteString("X-Empty:\r\nx-lower-case-name: MiXeD\r\n")
	case "cookies":
		b.WriteString("Cookie: s=abc; t=def\r\nAuthorization: Basic dXNlcjpwYXNz\r\n")
	case "accept_enc":
		b.WriteString("Accept-Encoding: gzip, br\r\n")
	case "custom_ae":
		b.WriteString("Accept-Encoding: identity\r\nAccept-Language: de-CH\r\n")
	case "te_trailers":
		b.WriteString("If-None-Match: \"abc\"\r\nRange: bytes=0-10\r\n")
	case "xff":
		b.WriteString("X-Forwarded-For: 203.0.113.9\r\nX-Forwarded-Proto: https\r\nVia: 1.1 edge\r\n")
	case "expect_100":
		if c.d(5) != "none" {
			b.WriteString("Expect: 100-continue\r\n")
		}
	}
	kind := c.d(5)
	body := bodyBytes(kind, c.seed)
	switch {
	case kind == "none":
		b.WriteString("\r\n")
	case strings.HasPrefix(kind, "cl_"):
		fmt.Fprintf(&b, "Content-Type: application/octet-stream\r\nContent-Length: %d\r\n\r\n", len(body))
		b.Write(body)
	default:
		if kind == "chunked_trailer" {
			b.WriteString("Trailer: X-Req-Sum\r\n")
		}
		b.WriteString("Content-Type: application/octet-stream\r\nTransfer-Encoding: chunked\r\n\r\n")
		for off := 0; off < len(body); off += 40000 {
			end := off + 40000
			if end > len(body) {
				end = len(body)
			}
			fmt.Fprintf(&b, "%x\r\n", end-off)
			b.Write(body[off:end])
			b.WriteString("\r\n")
		}
		if kind == "chunked_trailer" {
			// the body is followed by a trailer field the header block announced
			b.WriteString("0\r\nX-Req-Sum: sum-123\r\n\r\n")
		} else {
			b.WriteString("0\r\n\r\n")
		}
	}
	return b.Bytes()
}

// one exchange; returns what the client saw and whether the backend was reached / streamed
func relayExchange(c *relayCase, which, addr, prefix string) (*respSeen, *exchangeState, string) {
	key := c.id + "/" + which
	ex := &exchangeState{c: c, acks: make(chan struct{}, 8), stream: true}
	exMu.Lock()
	exs[key] = ex
	exMu.Unlock()
	defer func() { exMu.Lock(); delete(exs, key); exMu.Unlock() }()
	conn, err := dial(addr)
	if err != nil {
		return nil, ex, "dial: " + err.Error()
	}
	defer conn.c.Close()
	conn.c.SetDeadline(time.Now().Add(20 * time.Second))
	raw := buildRequest(c, key, prefix)
	expect := c.d(4) == "expect_100" && c.d(5) != "none"
	interim := []int{}
	got100 := false
	var resp *http.Response
	if expect {
		// send the header block, wait for "100 Continue" (at most 1.5 s), then the body
		i := bytes.Index(raw, []byte("\r\n\r\n")) + 4
		if _, err := conn.c.Write(raw[:i]); err != nil {
			return nil, ex, "write: " + err.Error()
		}
		conn.c.SetReadDeadline(time.Now().Add(1500 * time.Millisecond))
		r1, err := http.ReadResponse(conn.br, &http.Request{Method: c.d(1)})
		conn.c.SetDeadline(time.Now().Add(20 * time.Second))
		if err == nil && r1.StatusCode != 100 {
			resp = r1 // the server answered without asking for the body
		}
		if err == nil && r1.StatusCode == 100 {
			got100 = true
		}
		if resp == nil || (resp.StatusCode >= 100 && resp.StatusCode < 200) {
			if _, err := conn.c.Write(raw[i:]); err != nil {
				return nil, ex, "write body: " + err.Error()
			}
		}
	} else if _, err := conn.c.Write(raw); err != nil {
		return nil, ex, "write: " + err.Error()
	}
	for resp == nil || (resp.StatusCode >= 100 && resp.StatusCode < 200) {
		if resp != nil && resp.StatusCode != 100 {
			interim = append(interim, resp.StatusCode)
		}
		if resp != nil && resp.StatusCode == 100 {
			got100 = true
		}
		r, err := http.ReadResponse(conn.br, &http.Request{Method: c.d(1)})
		if err != nil {
			return nil, ex, "read: " + err.Error()
		}
		resp = r
	}
	framing := "none"
	if len(resp.TransferEncoding) > 0 {
		framing = strings.Join(resp.TransferEncoding, ",")
	} else if resp.ContentLength >= 0 {
		framing = fmt.Sprintf("cl:%d", resp.ContentLength)
	} else {
		framing = "until-close"
	}
	var body []byte
	readErr := ""
	kind := c.d(8)
	if (kind == "stream3" || kind == "sse" || kind == "cl_stream3" || kind == "cl_stream_small") && resp.StatusCode != 204 && resp.StatusCode != 304 && c.d(1) != "HEAD" {
		// read chunk by chunk; acknowledge each one to the backend as soon as it has arrived
		for _, ch := range respChunks(kind, c.seed) {
			buf := make([]byte, len(ch))
			n, err := io.ReadFull(resp.Body, buf)
			body = append(body, buf[:n]...)
			if err != nil {
				readErr = fmt.Sprintf("chunk read: %d of %d bytes: %v", n, len(buf), err)
				break
			}
			select {
			case ex.acks <- struct{}{}:
			default:
			}
		}
		rest, _ := io.ReadAll(resp.Body)
		body = append(body, rest...)
	} else {
		body, _ = io.ReadAll(resp.Body)
	}
	resp.Body.Close()
	if readErr != "" {
		return &respSeen{Interim: interim, Status: resp.StatusCode, Hdrs: headerSet(resp.Header, ""), Body: digest(body), Framing: framing, First: firstIDs(resp.Header), Got100: got100}, ex, readErr
	}
	return &respSeen{Interim: interim, Status: resp.StatusCode, Hdrs: headerSet(resp.Header, ""), Body: digest(body), Framing: framing, First: firstIDs(resp.Header), Got100: got100}, ex, ""
}

type relayEnv struct {
	backends []string // two scripted backends (same handler)
}

var relayBE *relayEnv

func ensureRelayBackends() *relayEnv {
	heliosMu.Lock()
	defer heliosMu.Unlock()
	if relayBE != nil {
		return relayBE
	}
	env := &relayEnv{}
	for i := 0; i < 2; i++ {
		ln, err := net.Listen("tcp", "127.0.0.1:0")
		if err != nil {
			panic(err)
		}
		// a raw handler: ServeMux would "clean" paths such as //double with a redirect
		go (&http.Server{Handler: http.HandlerFunc(relayBackend)}).Serve(ln)
		env.backends = append(env.backends, ln.Addr().String())
	}
	relayBE = env
	return env
}

func heliosForRelay(c *relayCase) (*helios, error) {
	env := ensureRelayBackends()
	k := heliosKey{strategy: c.d(10), ids: c.d(11), plugin: c.d(12), base: c.d(9), extra: c.d(13)}
	heliosMu.Lock()
	defer heliosMu.Unlock()
	if h, ok := heliosMap[k]; ok {
		return h, nil
	}
	cfg := baseConfig(k.strategy, env.backends, k.base)
	if k.ids == "ids_on" {
		cfg.Logging.RequestID.Enabled = true
		cfg.Logging.Trace.Enabled = true
	}
	if k.plugin == "logging" {
		cfg.Plugins.Enabled = true
		cfg.Plugins.Chain = append(cfg.Plugins.Chain, pluginCfg("logging"))
	}
	if k.extra == "guards" {
		// enabled, with limits no run reaches: the guards must stay invisible
		cfg.CircuitBreaker = config.CircuitBreakerConfig{Enabled: true, MaxRequests: 1000000, FailureThreshold: 1000000, SuccessThreshold: 1, IntervalSeconds: 3600, TimeoutSeconds: 1}
		cfg.RateLimit = config.RateLimitConfig{Enabled: true, MaxTokens: 1000000, RefillRate: 1000000}
		cfg.HealthChecks.Passive = config.PassiveHealthCheckConfig{Enabled: true, UnhealthyThreshold: 1000000, UnhealthyTimeout: 1}
	}
	h, err := startHelios(cfg)
	if err != nil {
		return nil, err
	}
	heliosMap[k] = h
	return h, nil
}

func runRelay(c *relayCase) map[string]any {
	h, err := heliosForRelay(c)
	if err != nil {
		return map[string]any{"error": err.Error()}
	}
	env := ensureRelayBackends()
	var dresp, vresp *respSeen
	var dex, vex *exchangeState
	var derr, verr string
	attempts := 0
	// A bare net/http reverse proxy (control experiment, no Helios code) truncates about 1 in 1000
	// streamed exchanges that carry a request body on this platform; an exchange that ends in a
	// transport-level read error is therefore inconclusive and is repeated.  A deterministic loss
	// shows up on every attempt and is reported.
	for attempts < 4 {
		attempts++
		dresp, dex, derr = relayExchange(c, "direct", env.backends[0], c.d(9))
		vresp, vex, verr = relayExchange(c, "via", h.addr, "")
		if derr == "" && verr == "" {
			break
		}
	}
	o := map[string]any{"reached": vex.seen != nil && dex.seen != nil, "attempts": attempts}
	mk := func(r *respSeen, ex *exchangeState, e string) map[string]any {
		m := map[string]any{"err": e, "streamed": ex.stream}
		if ex.seen != nil {
			m["req"] = ex.seen
		} else {
			m["req"] = &reqSeen{Hdrs: []hv{}}
		}
		if r != nil {
			m["resp"] = r
		} else {
			m["resp"] = &respSeen{Hdrs: []hv{}, Interim: []int{}}
		}
		return m
	}
	o["via"] = mk(vresp, vex, verr)
	o["direct"] = mk(dresp, dex, derr)
	return o
}
