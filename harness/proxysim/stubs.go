package main

import "encoding/json"

func runDrain(idx int, raw json.RawMessage, seed int64) map[string]any { return map[string]any{} }
