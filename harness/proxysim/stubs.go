package main

import "encoding/json"

func runWS(idx int, raw json.RawMessage, seed int64) map[string]any    { return map[string]any{} }
func runDrain(idx int, raw json.RawMessage, seed int64) map[string]any { return map[string]any{} }
