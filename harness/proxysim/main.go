package main

import (
	"bufio"
	"encoding/json"
	"fmt"
	"os"
	"strconv"
	"sync"

	"github.com/0xReLogic/Helios/internal/config"
	"github.com/0xReLogic/Helios/internal/logging"
)

func pluginCfg(name string) config.PluginConfig {
	switch name {
	case "size_limit":
		return config.PluginConfig{Name: "size_limit", Config: map[string]interface{}{"max_request_body": 10 << 20, "max_response_body": 50 << 20}}
	case "gzip":
		return config.PluginConfig{Name: "gzip", Config: map[string]interface{}{"level": 5.0, "min_size": 1024.0, "content_types": []interface{}{"text/html"}}}
	case "headers":
		return config.PluginConfig{Name: "headers", Config: map[string]interface{}{"set": map[string]interface{}{"X-App": "Helios"}}}
	case "custom-auth":
		return config.PluginConfig{Name: "custom-auth", Config: map[string]interface{}{"apiKey": "k1"}}
	}
	return config.PluginConfig{Name: name}
}

type job struct {
	idx int
	raw json.RawMessage
}

func main() {
	logging.Init(config.LoggingConfig{Level: "fatal", Format: "json"})
	if len(os.Args) < 4 {
		fmt.Fprintln(os.Stderr, "usage: proxysim <mode> <cases.ndjson> <out.ndjson> [seed] [workers]")
		os.Exit(2)
	}
	mode := os.Args[1]
	in, err := os.Open(os.Args[2])
	if err != nil {
		panic(err)
	}
	of, err := os.Create(os.Args[3])
	if err != nil {
		panic(err)
	}
	seed := int64(1)
	if len(os.Args) > 4 {
		seed, _ = strconv.ParseInt(os.Args[4], 10, 64)
	}
	workers := 8
	if len(os.Args) > 5 {
		workers, _ = strconv.Atoi(os.Args[5])
	}
	var jobs []job
	dec := json.NewDecoder(bufio.NewReaderSize(in, 1<<20))
	for dec.More() {
		var raw json.RawMessage
		if err := dec.Decode(&raw); err != nil {
			panic(err)
		}
		jobs = append(jobs, job{len(jobs), raw})
	}
	results := make([][]byte, len(jobs))
	ch := make(chan job)
	var wg sync.WaitGroup
	for w := 0; w < workers; w++ {
		wg.Add(1)
		go func() {
			defer wg.Done()
			for j := range ch {
				var o map[string]any
				switch mode {
				case "relay":
					var dims []string
					json.Unmarshal(j.raw, &dims)
					o = runRelay(&relayCase{id: fmt.Sprintf("c%d", j.idx), dims: dims, seed: seed + int64(j.idx)})
				case "fault":
					o = runFault(j.idx, j.raw, seed)
				case "ws":
					o = runWS(j.idx, j.raw, seed)
				case "drain":
					o = runDrain(j.idx, j.raw, seed)
				}
				ob, _ := json.Marshal(o)
				results[j.idx] = []byte(fmt.Sprintf("{\"c\":%s,\"o\":%s}\n", string(j.raw), string(ob)))
			}
		}()
	}
	// cases marked solo run first, one at a time (nothing else going on in the process)
	isSolo := func(raw json.RawMessage) bool {
		var k struct {
			Solo bool `json:"solo"`
		}
		json.Unmarshal(raw, &k)
		return k.Solo
	}
	for _, j := range jobs {
		if mode == "fault" && isSolo(j.raw) {
			o := runFault(j.idx, j.raw, seed)
			ob, _ := json.Marshal(o)
			results[j.idx] = []byte(fmt.Sprintf("{\"c\":%s,\"o\":%s}\n", string(j.raw), string(ob)))
		}
	}
	for _, j := range jobs {
		if mode == "fault" && isSolo(j.raw) {
			continue
		}
		ch <- j
	}
	close(ch)
	wg.Wait()
	killProcesses()
	out := bufio.NewWriterSize(of, 1<<20)
	for _, r := range results {
		out.Write(r)
	}
	out.Flush()
	of.Close()
	os.WriteFile(os.Args[3]+".ok", []byte(fmt.Sprint(len(jobs))), 0o644)
}
