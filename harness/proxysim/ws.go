package main

import (
	"bytes"
	"encoding/json"
	"fmt"
	"math/rand"
	"net"
	"net/http"
	"sync"
	"time"

	"github.com/0xReLogic/Helios/internal/config"
	"github.com/gorilla/websocket"
)

type wsStep struct {
	dir  string // "c2s" | "s2c"
	typ  int
	size int
}

func wsScript(name string) []wsStep {
	t, b := websocket.TextMessage, websocket.BinaryMessage
	switch name {
	case "ping_pong_small":
		return []wsStep{{"c2s", t, 5}, {"s2c", t, 5}, {"c2s", t, 1}, {"s2c", t, 1}}
	case "sizes_c2s":
		return []wsStep{{"c2s", b, 0}, {"c2s", b, 1}, {"c2s", b, 125}, {"c2s", b, 126}, {"c2s", b, 65535}, {"c2s", b, 65536}, {"c2s", b, 100000}}
	case "sizes_s2c":
		return []wsStep{{"s2c", b, 0}, {"s2c", b, 1}, {"s2c", b, 125}, {"s2c", b, 126}, {"s2c", b, 65535}, {"s2c", b, 65536}, {"s2c", b, 100000}}
	case "interleaved":
		return []wsStep{{"c2s", t, 10}, {"c2s", b, 300}, {"s2c", t, 20}, {"c2s", t, 126}, {"s2c", b, 70000}, {"s2c", t, 3}, {"c2s", b, 65536}}
	case "burst_s2c":
		s := []wsStep{}
		for i := 0; i < 30; i++ {
			s = append(s, wsStep{"s2c", t, 40 + i})
		}
		return append(s, wsStep{"c2s", t, 2})
	case "empty_and_big":
		return []wsStep{{"c2s", t, 0}, {"s2c", t, 0}, {"c2s", b, 100000}, {"s2c", b, 100000}}
	case "long_session", "long_session_tokens":
		// the tunnel outlives the configured end-to-end handler timeout (1 s in this script's configuration)
		return []wsStep{{"c2s", t, 5}, {"s2c", t, 5}, {"pause", 0, 1600}, {"c2s", t, 7}, {"s2c", t, 7}}
	case "duplex":
		// both directions carry large messages AT THE SAME TIME: each side writes its messages back to back in one
		// goroutine while it reads the other side's in another (a pipelined echo, a chat under load)
		st := []wsStep{}
		for i := 0; i < 10; i++ {
			st = append(st, wsStep{"c2s", b, 100000 + i}, wsStep{"s2c", b, 90000 + i})
		}
		return st
	case "binary_mix":
		return []wsStep{{"s2c", b, 127}, {"c2s", b, 128}, {"s2c", t, 65535}, {"c2s", t, 65537}}
	}
	return nil
}

func wsPayload(seed int64, i int, st wsStep) []byte {
	p := make([]byte, st.size)
	r := rand.New(rand.NewSource(seed*1000 + int64(i)))
	if st.typ == websocket.TextMessage {
		for k := range p {
			p[k] = "abcdefghijklmnopqrstuvwxyz "[r.Intn(27)]
		}
	} else {
		r.Read(p)
	}
	return p
}

func frameSig(typ int, p []byte) string { return fmt.Sprintf("%d:%s", typ, digest(p)) }

// tokenListConn rewrites the Connection header of the handshake (the first write) into a token list
type tokenListConn struct {
	net.Conn
	done bool
}

func (c *tokenListConn) Write(b []byte) (int, error) {
	if !c.done {
		c.done = true
		nb := bytes.Replace(b, []byte("Connection: Upgrade\r\n"), []byte("Connection: keep-alive, Upgrade\r\n"), 1)
		_, err := c.Conn.Write(nb)
		return len(b), err
	}
	return c.Conn.Write(b)
}

type wsSession struct {
	steps  []wsStep
	seed   int64
	closer string
	got    []string
	closed bool // the peer's close was seen
	done   chan struct{}
	duplex bool // both directions run at once
}

var (
	wsMu       sync.Mutex
	wsSessions = map[string]*wsSession{}
	wsOnce     sync.Once
	wsBackend  string
)

func wsBackendHandler(w http.ResponseWriter, r *http.Request) {
	wsMu.Lock()
	s := wsSessions[r.Header.Get("X-Verif-Key")]
	wsMu.Unlock()
	if s == nil {
		http.Error(w, "no session", 599)
		return
	}
	defer close(s.done)
	up := websocket.Upgrader{CheckOrigin: func(*http.Request) bool { return true }}
	c, err := up.Upgrade(w, r, nil)
	if err != nil {
		return
	}
	defer c.Close()
	c.SetReadLimit(1 << 22)
	if s.duplex {
		// write all s2c messages back to back while reading the c2s messages as they come
		c.SetReadDeadline(time.Now().Add(15 * time.Second))
		c.SetWriteDeadline(time.Now().Add(15 * time.Second))
		wdone := make(chan struct{})
		go func() {
			defer close(wdone)
			for i, st := range s.steps {
				if st.dir == "s2c" {
					if err := c.WriteMessage(st.typ, wsPayload(s.seed, i, st)); err != nil {
						return
					}
				}
			}
		}()
		for _, st := range s.steps {
			if st.dir == "c2s" {
				typ, p, err := c.ReadMessage()
				if err != nil {
					break
				}
				s.got = append(s.got, frameSig(typ, p))
			}
		}
		<-wdone
	}
	for i, st := range s.steps {
		if s.duplex {
			break
		}
		if st.dir == "pause" {
			continue // the client waits; the backend just keeps reading
		}
		c.SetReadDeadline(time.Now().Add(8 * time.Second))
		c.SetWriteDeadline(time.Now().Add(8 * time.Second))
		if st.dir == "c2s" {
			typ, p, err := c.ReadMessage()
			if err != nil {
				return
			}
			s.got = append(s.got, frameSig(typ, p))
		} else if err := c.WriteMessage(st.typ, wsPayload(s.seed, i, st)); err != nil {
			return
		}
	}
	if s.closer == "server" {
		c.WriteControl(websocket.CloseMessage, websocket.FormatCloseMessage(websocket.CloseNormalClosure, "bye"), time.Now().Add(2*time.Second))
		time.Sleep(50 * time.Millisecond)
		return
	}
	// the client closes: the backend must see it
	c.SetReadDeadline(time.Now().Add(4 * time.Second))
	if _, _, err := c.ReadMessage(); err != nil {
		if _, ok := err.(*websocket.CloseError); ok || err.Error() != "" {
			if ne, isNet := err.(net.Error); !(isNet && ne.Timeout()) {
				s.closed = true
			}
		}
	}
}

func runWS(idx int, raw json.RawMessage, seed int64) map[string]any {
	var c struct {
		Chain  []string `json:"chain"`
		Script string   `json:"script"`
		Closer string   `json:"closer"`
		IDs    bool     `json:"ids"`
	}
	json.Unmarshal(raw, &c)
	wsOnce.Do(func() {
		ln, err := net.Listen("tcp", "127.0.0.1:0")
		if err != nil {
			panic(err)
		}
		go (&http.Server{Handler: http.HandlerFunc(wsBackendHandler)}).Serve(ln)
		wsBackend = ln.Addr().String()
	})
	cfg := baseConfig("round_robin", []string{wsBackend}, "")
	cfg.LoadBalancer.WebSocketPool = config.WebSocketPoolConfig{Enabled: true, MaxIdle: 2, MaxActive: 10, IdleTimeoutSeconds: 30}
	if len(c.Chain) > 0 {
		cfg.Plugins.Enabled = true
		for _, p := range c.Chain {
			cfg.Plugins.Chain = append(cfg.Plugins.Chain, pluginCfg(p))
		}
	}
	cfg.Logging.RequestID.Enabled = c.IDs
	cfg.Logging.Trace.Enabled = c.IDs
	if c.Script == "long_session" || c.Script == "long_session_tokens" {
		cfg.Server.Timeouts.Handler = 1
	}
	h, err := startHelios(cfg)
	o := map[string]any{"upgraded": false, "c2s_sent": []string{}, "c2s_got": []string{}, "s2c_sent": []string{}, "s2c_got": []string{}, "close_seen": false}
	if err != nil {
		o["error"] = err.Error()
		return o
	}
	defer func() { h.srv.Close(); h.lb.Stop() }()
	key := fmt.Sprintf("ws%d", idx)
	s := &wsSession{steps: wsScript(c.Script), seed: seed + int64(idx), closer: c.Closer, done: make(chan struct{}), duplex: c.Script == "duplex"}
	wsMu.Lock()
	wsSessions[key] = s
	wsMu.Unlock()
	defer func() { wsMu.Lock(); delete(wsSessions, key); wsMu.Unlock() }()
	d := websocket.Dialer{HandshakeTimeout: 5 * time.Second}
	if c.Script == "long_session_tokens" {
		// the handshake names the upgrade in a token list, as browsers do: "Connection: keep-alive, Upgrade"
		d.NetDial = func(network, addr string) (net.Conn, error) {
			nc, err := net.DialTimeout(network, addr, 5*time.Second)
			if err != nil {
				return nil, err
			}
			return &tokenListConn{Conn: nc}, nil
		}
	}
	hdr := http.Header{"X-Verif-Key": []string{key}, "Accept-Encoding": []string{"gzip"}}
	conn, _, err := d.Dial("ws://"+h.addr+"/ws", hdr)
	if err != nil {
		o["error"] = err.Error()
		return o
	}
	defer conn.Close()
	conn.SetReadLimit(1 << 22)
	o["upgraded"] = true
	c2sSent, s2cSent, s2cGot := []string{}, []string{}, []string{}
	ok := true
	if s.duplex {
		conn.SetReadDeadline(time.Now().Add(15 * time.Second))
		conn.SetWriteDeadline(time.Now().Add(15 * time.Second))
		wdone := make(chan struct{})
		go func() {
			defer close(wdone)
			for i, st := range s.steps {
				if st.dir == "c2s" {
					if err := conn.WriteMessage(st.typ, wsPayload(s.seed, i, st)); err != nil {
						return
					}
				}
			}
		}()
		for i, st := range s.steps {
			p := wsPayload(s.seed, i, st)
			if st.dir == "c2s" {
				c2sSent = append(c2sSent, frameSig(st.typ, p))
				continue
			}
			s2cSent = append(s2cSent, frameSig(st.typ, p))
			if !ok {
				continue
			}
			typ, got, err := conn.ReadMessage()
			if err != nil {
				ok = false
				continue
			}
			s2cGot = append(s2cGot, frameSig(typ, got))
		}
		<-wdone
	}
	for i, st := range s.steps {
		if s.duplex {
			break
		}
		if st.dir == "pause" {
			if ok {
				time.Sleep(time.Duration(st.size) * time.Millisecond)
			}
			continue
		}
		p := wsPayload(s.seed, i, st)
		if st.dir == "c2s" {
			c2sSent = append(c2sSent, frameSig(st.typ, p))
		} else {
			s2cSent = append(s2cSent, frameSig(st.typ, p))
		}
		if !ok {
			continue
		}
		conn.SetReadDeadline(time.Now().Add(8 * time.Second))
		conn.SetWriteDeadline(time.Now().Add(8 * time.Second))
		if st.dir == "c2s" {
			if err := conn.WriteMessage(st.typ, p); err != nil {
				ok = false
			}
		} else {
			typ, got, err := conn.ReadMessage()
			if err != nil {
				ok = false
				continue
			}
			s2cGot = append(s2cGot, frameSig(typ, got))
		}
	}
	closeSeen := false
	if c.Closer == "client" {
		conn.WriteControl(websocket.CloseMessage, websocket.FormatCloseMessage(websocket.CloseNormalClosure, "bye"), time.Now().Add(2*time.Second))
		conn.Close()
		select {
		case <-s.done:
		case <-time.After(6 * time.Second):
		}
		closeSeen = s.closed
	} else {
		conn.SetReadDeadline(time.Now().Add(4 * time.Second))
		if _, _, err := conn.ReadMessage(); err != nil {
			if ne, isNet := err.(net.Error); !(isNet && ne.Timeout()) {
				closeSeen = true
			}
		}
		select {
		case <-s.done:
		case <-time.After(3 * time.Second):
		}
	}
	got := s.got
	if got == nil {
		got = []string{}
	}
	o["c2s_sent"], o["c2s_got"], o["s2c_sent"], o["s2c_got"], o["close_seen"] = c2sSent, got, s2cSent, s2cGot, closeSeen
	return o
}
