// wiresim -- socket-level harness (H3) for the writer plugins: a real
// http.Server on loopback whose handler is the real plugin chain
// (plugins.BuildChain) around a scripted handler; a real TCP client sends each
// case's request on a keep-alive connection and parses the raw response
// (net/http's response reader, no transparent decompression).  Records what
// arrived on the wire next to the case; TLC judges (ObsSizeLimitTrace /
// ObsGzipTrace).
package main

import (
	"bufio"
	"bytes"
	"compress/gzip"
	"crypto/sha256"
	"encoding/hex"
	"encoding/json"
	"fmt"
	"io"
	"math/rand"
	"net"
	"net/http"
	"os"
	"strconv"
	"strings"
	"sync"
	"time"

	"github.com/0xReLogic/Helios/internal/config"
	"github.com/0xReLogic/Helios/internal/logging"
	"github.com/0xReLogic/Helios/internal/plugins"
)

const alphabet = "abcdefghijklmnopqrstuvwxyzABCDEFGHIJKLMNOPQRSTUVWXYZ0123456789"

type op struct {
	K string `json:"k"`
	S int    `json:"s"`
	N int    `json:"n"`
}

// ---------------------------------------------------------------- scripted handler

type reqRecord struct {
	called bool
	got    int
}

var (
	recMu sync.Mutex
	recs  = map[string]*reqRecord{}
)

func digest(b []byte) string {
	h := sha256.Sum256(b)
	return hex.EncodeToString(h[:8])
}

var gzMin = 64

func payload(size string, compressible bool, seed int64) []byte {
	n := gzMin
	switch size {
	case "empty":
		n = 0
	case "min-1":
		n = gzMin - 1
	case "min":
		n = gzMin
	case "min+1":
		n = gzMin + 1
	case "big":
		n = 70000 // more than two proxy copy buffers
	case "mb+1":
		n = 1<<20 + 1
	case "cap":
		n = 10 << 20 // plugins.MaxCompressionBufferSize
	case "cap+1":
		n = 10<<20 + 1
	case "cap+100k":
		n = 10<<20 + 100<<10 + 17
	}
	b := make([]byte, n)
	if compressible {
		for i := range b {
			b[i] = "helios "[i%7]
		}
	} else {
		rand.New(rand.NewSource(seed)).Read(b)
	}
	return b
}

func scripted(w http.ResponseWriter, r *http.Request) {
	id := r.Header.Get("X-Verif-Id")
	mode := r.Header.Get("X-Verif-Mode")
	switch mode {
	case "ops": // size_limit response side
		var ops []op
		json.Unmarshal([]byte(r.Header.Get("X-Verif-Ops")), &ops)
		w.Header().Set("X-Handler", "yes")
		off := 0
		for _, o := range ops {
			switch o.K {
			case "EH":
				w.Header().Set("Link", "</style.css>; rel=preload")
				w.WriteHeader(http.StatusEarlyHints)
				w.Header().Del("Link")
			case "WH":
				w.WriteHeader(o.S)
			case "W":
				b := make([]byte, o.N)
				for i := range b {
					b[i] = alphabet[(off+i)%len(alphabet)]
				}
				off += o.N
				w.Write(b)
			case "F":
				if f, ok := w.(http.Flusher); ok {
					f.Flush()
				}
			}
		}
	case "head": // size_limit, bodiless response that declares a length
		var c struct {
			Declared int `json:"declared"`
			Status   int `json:"status"`
		}
		json.Unmarshal([]byte(r.Header.Get("X-Verif-Case")), &c)
		w.Header().Set("X-Handler", "yes")
		w.Header().Set("Content-Length", strconv.Itoa(c.Declared))
		w.WriteHeader(c.Status)
	case "count": // size_limit request side
		n, _ := io.Copy(io.Discard, r.Body)
		recMu.Lock()
		recs[id] = &reqRecord{called: true, got: int(n)}
		recMu.Unlock()
		w.WriteHeader(200)
		fmt.Fprintf(w, "got=%d", n)
	case "gz": // gzip cases
		var c struct {
			CT           string `json:"ct"`
			Size         string `json:"size"`
			Compressible bool   `json:"compressible"`
			Explicit     bool   `json:"explicit"`
			Status       int    `json:"status"`
			Pre          bool   `json:"pre"`
			SetCL        bool   `json:"setcl"`
			Flush        bool   `json:"flush"`
			Interim      bool   `json:"interim"`
			Writes       string `json:"writes"`
		}
		json.Unmarshal([]byte(r.Header.Get("X-Verif-Case")), &c)
		seed, _ := strconv.ParseInt(r.Header.Get("X-Verif-Seed"), 10, 64)
		body := payload(c.Size, c.Compressible, seed)
		switch c.CT {
		case "json":
			w.Header().Set("Content-Type", "application/json")
		case "json_charset":
			w.Header().Set("Content-Type", "application/json; charset=utf-8")
		case "plain":
			w.Header().Set("Content-Type", "text/plain")
		case "none":
			w.Header()["Content-Type"] = nil // suppress sniffing
		}
		if c.Pre {
			w.Header().Set("Content-Encoding", "gzip")
		}
		if c.SetCL {
			w.Header().Set("Content-Length", strconv.Itoa(len(body)))
		}
		w.Header().Set("X-Sent-Digest", digest(body))
		if c.Interim {
			w.Header().Set("Link", "</style.css>; rel=preload")
			w.WriteHeader(http.StatusEarlyHints)
			w.Header().Del("Link")
		}
		if c.Explicit || c.Status != 200 {
			w.WriteHeader(c.Status)
		}
		if c.Writes == "reuse" || c.Writes == "reuse32k" {
			// what io.Copy does: every piece travels in the same buffer
			n := len(body)/3 + 1
			if c.Writes == "reuse32k" {
				n = 32 << 10
			}
			buf := make([]byte, n)
			for off := 0; off < len(body); off += n {
				k := copy(buf, body[off:])
				w.Write(buf[:k])
				if c.Flush {
					if f, ok := w.(http.Flusher); ok {
						f.Flush()
					}
				}
			}
			return
		}
		if c.Writes == "32k" {
			// the way a proxy copy loop delivers a large body
			for off := 0; off < len(body); off += 32 << 10 {
				end := off + 32<<10
				if end > len(body) {
					end = len(body)
				}
				w.Write(body[off:end])
				if c.Flush {
					if f, ok := w.(http.Flusher); ok {
						f.Flush()
					}
				}
			}
			return
		}
		// two writes
		half := len(body) / 2
		w.Write(body[:half])
		if c.Flush {
			if f, ok := w.(http.Flusher); ok {
				f.Flush()
			}
		}
		w.Write(body[half:])
	}
}

// ---------------------------------------------------------------- servers

type srvKey struct {
	kind  string
	limit int
	level int
	pos   string
}

var servers = map[srvKey]string{}

func chainFor(k srvKey) config.PluginsConfig {
	var main config.PluginConfig
	if k.kind == "size" {
		main = config.PluginConfig{Name: "size_limit", Config: map[string]interface{}{"max_request_body": 1 << 20, "max_response_body": k.limit}}
	} else if k.kind == "sizereq" {
		main = config.PluginConfig{Name: "size_limit", Config: map[string]interface{}{"max_request_body": k.limit, "max_response_body": 1 << 20}}
	} else {
		main = config.PluginConfig{Name: "gzip", Config: map[string]interface{}{"level": float64(k.level), "min_size": float64(gzMin),
			"content_types": []interface{}{"application/json"}}}
	}
	lg := config.PluginConfig{Name: "logging"}
	pc := config.PluginsConfig{Enabled: true}
	switch k.pos {
	case "inner":
		pc.Chain = []config.PluginConfig{lg, main}
	case "outer":
		pc.Chain = []config.PluginConfig{main, lg}
	default:
		pc.Chain = []config.PluginConfig{main}
	}
	return pc
}

func serverFor(k srvKey) string {
	if a, ok := servers[k]; ok {
		return a
	}
	h, err := plugins.BuildChain(chainFor(k), http.HandlerFunc(scripted))
	if err != nil {
		panic(err)
	}
	ln, err := net.Listen("tcp", "127.0.0.1:0")
	if err != nil {
		panic(err)
	}
	srv := &http.Server{Handler: h, ReadTimeout: 15 * time.Second, WriteTimeout: 15 * time.Second, IdleTimeout: 60 * time.Second}
	go srv.Serve(ln)
	servers[k] = ln.Addr().String()
	return servers[k]
}

// ---------------------------------------------------------------- client

type client struct {
	conn net.Conn
	br   *bufio.Reader
	addr string
}

var clients = map[string]*client{}

func (c *client) close() {
	if c.conn != nil {
		c.conn.Close()
		c.conn = nil
	}
}

var lastInterim = []int{} // 1xx responses that preceded the response roundTrip returned last

// roundTrip writes the raw request and reads one response; returns status, headers, body, read error
func roundTrip(addr string, raw []byte, method string) (*http.Response, []byte, error) {
	c := clients[addr]
	if c == nil {
		c = &client{addr: addr}
		clients[addr] = c
	}
	for attempt := 0; attempt < 2; attempt++ {
		if c.conn == nil {
			conn, err := net.DialTimeout("tcp", addr, 5*time.Second)
			if err != nil {
				return nil, nil, err
			}
			c.conn = conn
			c.br = bufio.NewReader(conn)
		}
		c.conn.SetDeadline(time.Now().Add(20 * time.Second))
		if _, err := c.conn.Write(raw); err != nil {
			c.close()
			continue
		}
		lastInterim = []int{}
		resp, err := http.ReadResponse(c.br, &http.Request{Method: method})
		for err == nil && resp.StatusCode >= 100 && resp.StatusCode < 200 && resp.StatusCode != 101 {
			lastInterim = append(lastInterim, resp.StatusCode)
			resp, err = http.ReadResponse(c.br, &http.Request{Method: method})
		}
		if err != nil {
			c.close()
			if attempt == 0 {
				continue // a keep-alive connection the server had closed
			}
			return nil, nil, err
		}
		body, rerr := io.ReadAll(resp.Body)
		resp.Body.Close()
		if rerr != nil || resp.Close {
			c.close()
		}
		return resp, body, rerr
	}
	return nil, nil, fmt.Errorf("could not send request")
}

func isPrefixOfAlphabetStream(b []byte) bool {
	for i := range b {
		if b[i] != alphabet[i%len(alphabet)] {
			return false
		}
	}
	return true
}

var aeValue = map[string]string{"gzip": "gzip", "gzip_deflate": "gzip, deflate", "deflate_gzip": "deflate,gzip", "br_gzipq": "br, gzip;q=0.8",
	"GZIP": "GZIP", "gzip_q0": "gzip;q=0", "gzip_q00": "gzip;q=0.0", "gzip_q000sp": "gzip; q=0.000", "gzip_q0dot": "deflate, gzip;q=0.", "identity": "identity", "deflate": "deflate", "gzipx": "gzipx", "x-gzip": "x-gzip"}

func main() {
	logging.Init(config.LoggingConfig{Level: "fatal", Format: "json"})
	in, err := os.Open(os.Args[1])
	if err != nil {
		panic(err)
	}
	of, err := os.Create(os.Args[2])
	if err != nil {
		panic(err)
	}
	seed := int64(1)
	if len(os.Args) > 3 {
		seed, _ = strconv.ParseInt(os.Args[3], 10, 64)
	}
	out := bufio.NewWriterSize(of, 1<<20)
	dec := json.NewDecoder(bufio.NewReaderSize(in, 1<<20))
	n := 0
	for dec.More() {
		var raw json.RawMessage
		if err := dec.Decode(&raw); err != nil {
			panic(err)
		}
		var k struct {
			Kind    string `json:"kind"`
			Limit   int    `json:"limit"`
			Ops     []op   `json:"ops"`
			Pos     string `json:"pos"`
			Size    any    `json:"size"`
			Framing string `json:"framing"`
			Level   *int   `json:"level"`
			AE      string `json:"ae"`
		}
		json.Unmarshal(raw, &k)
		n++
		id := strconv.Itoa(n)
		var o map[string]any
		switch {
		case k.Kind == "resp":
			addr := serverFor(srvKey{"size", k.Limit, 0, k.Pos})
			ops, _ := json.Marshal(k.Ops)
			req := fmt.Sprintf("GET /r HTTP/1.1\r\nHost: x\r\nX-Verif-Id: %s\r\nX-Verif-Mode: ops\r\nX-Verif-Ops: %s\r\n\r\n", id, ops)
			resp, body, rerr := roundTrip(addr, []byte(req), "GET")
			if resp == nil {
				o = map[string]any{"status": 0, "len": 0, "prefix": false, "hdr": false, "interim": []int{}, "err": fmt.Sprint(rerr)}
			} else {
				o = map[string]any{"status": resp.StatusCode, "len": len(body), "prefix": isPrefixOfAlphabetStream(body) && rerr == nil,
					"hdr": resp.Header.Get("X-Handler") == "yes" || resp.StatusCode == 413, "interim": lastInterim}
			}
		case k.Kind == "head":
			addr := serverFor(srvKey{"size", k.Limit, 0, k.Pos})
			var hm struct {
				Method string `json:"method"`
			}
			json.Unmarshal(raw, &hm)
			if hm.Method == "" {
				hm.Method = "HEAD"
			}
			req := fmt.Sprintf("%s /h HTTP/1.1\r\nHost: x\r\nX-Verif-Id: %s\r\nX-Verif-Mode: head\r\nX-Verif-Case: %s\r\n\r\n", hm.Method, id, raw)
			resp, _, rerr := roundTrip(addr, []byte(req), hm.Method)
			if resp == nil {
				o = map[string]any{"status": 0, "cl": -1, "hdr": false, "err": fmt.Sprint(rerr)}
			} else {
				cl := -1
				if v := resp.Header.Get("Content-Length"); v != "" {
					cl, _ = strconv.Atoi(v)
				}
				o = map[string]any{"status": resp.StatusCode, "cl": cl, "hdr": resp.Header.Get("X-Handler") == "yes"}
			}
		case k.Kind == "req":
			addr := serverFor(srvKey{"sizereq", k.Limit, 0, k.Pos})
			size := int(k.Size.(float64))
			body := bytes.Repeat([]byte("q"), size)
			var req bytes.Buffer
			fmt.Fprintf(&req, "POST /q HTTP/1.1\r\nHost: x\r\nX-Verif-Id: %s\r\nX-Verif-Mode: count\r\n", id)
			if k.Framing == "cl" {
				fmt.Fprintf(&req, "Content-Length: %d\r\n\r\n", size)
				req.Write(body)
			} else {
				req.WriteString("Transfer-Encoding: chunked\r\n\r\n")
				for off := 0; off < size; off += 7 {
					end := off + 7
					if end > size {
						end = size
					}
					fmt.Fprintf(&req, "%x\r\n%s\r\n", end-off, body[off:end])
				}
				req.WriteString("0\r\n\r\n")
			}
			resp, _, _ := roundTrip(addr, req.Bytes(), "POST")
			recMu.Lock()
			rr := recs[id]
			recMu.Unlock()
			st := 0
			if resp != nil {
				st = resp.StatusCode
			}
			o = map[string]any{"status": st, "got": 0, "called": false}
			if rr != nil {
				o["got"], o["called"] = rr.got, rr.called
			}
			// an over-limit chunked upload leaves the connection in an undefined state
			if size > k.Limit {
				if c := clients[addr]; c != nil {
					c.close()
				}
			}
		default: // gzip case
			addr := serverFor(srvKey{"gzip", 0, *k.Level, k.Pos})
			var req bytes.Buffer
			fmt.Fprintf(&req, "GET /g HTTP/1.1\r\nHost: x\r\nX-Verif-Id: %s\r\nX-Verif-Mode: gz\r\nX-Verif-Seed: %d\r\nX-Verif-Case: %s\r\n", id, seed+int64(n), raw)
			if v, ok := aeValue[k.AE]; ok {
				fmt.Fprintf(&req, "Accept-Encoding: %s\r\n", v)
			}
			req.WriteString("\r\n")
			resp, body, rerr := roundTrip(addr, req.Bytes(), "GET")
			if resp == nil {
				o = map[string]any{"status": 0, "ce": "", "cl": -1, "rawlen": 0, "raw": "", "decoded": "error", "sent": "?", "readerr": true}
			} else {
				ce := resp.Header.Get("Content-Encoding")
				cl := -1
				if v := resp.Header.Get("Content-Length"); v != "" {
					cl, _ = strconv.Atoi(v)
				}
				decoded := digest(body)
				var pre struct {
					Pre bool `json:"pre"`
				}
				json.Unmarshal(raw, &pre)
				if ce == "gzip" && !pre.Pre {
					zr, err := gzip.NewReader(bytes.NewReader(body))
					if err != nil {
						decoded = "error"
					} else if d, err := io.ReadAll(zr); err != nil {
						decoded = "error"
					} else {
						decoded = digest(d)
					}
				} else if ce != "" && ce != "gzip" {
					decoded = "error:unknown-encoding"
				}
				o = map[string]any{"status": resp.StatusCode, "ce": ce, "cl": cl, "rawlen": len(body), "raw": digest(body),
					"decoded": decoded, "sent": resp.Header.Get("X-Sent-Digest"), "readerr": rerr != nil}
			}
		}
		ob, _ := json.Marshal(o)
		fmt.Fprintf(out, "{\"c\":%s,\"o\":%s}\n", string(raw), string(ob))
	}
	out.Flush()
	of.Close()
	os.WriteFile(os.Args[2]+".ok", []byte(strings.TrimSpace(fmt.Sprint(n))), 0o644)
}
