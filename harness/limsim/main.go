// limsim -- replay harness for the token-bucket rate limiter (C09).
// Scripts (from spec/Limiter.tla via MCLimiter) are executed on a real
// ratelimiter.TokenBucketRateLimiter under virtual time.  One model tick is
// 600 s (the limiter's cleanup ticker period); the driver's ticks are offset
// by 300 s so that the hourly-cutoff cleanup always fires between two ticks.
// Next to the shared limiter every client also has a private limiter of the
// same configuration that only ever sees that client (isolation clause).
package main

import (
	"bufio"
	"encoding/json"
	"fmt"
	"os"
	"runtime"
	"runtime/debug"
	"time"

	"github.com/0xReLogic/Helios/internal/ratelimiter"
)

type cfg struct {
	Max int `json:"max"`
	R   int `json:"r"`
}
type step struct {
	A string `json:"a"`
	C int    `json:"c"`
	N int    `json:"n"`
}
type script struct {
	ID    string `json:"id"`
	Cf    cfg    `json:"cf"`
	Race  bool   `json:"race"` // gate-scheduled replay of spec/LimiterRace.tla (one client)
	Steps []step `json:"steps"`
}

const tick = 600 * time.Second

var out *bufio.Writer

func emit(v map[string]any) {
	b, _ := json.Marshal(v)
	out.Write(b)
	out.WriteByte('\n')
}

// ---- gate scheduling (build tag verif): one slow caller parked at rl:lock, the cleanup pass parked at rl:clean
var (
	armLock, armClean bool
	raceT0            time.Time // creation instant of the limiter under test: its cleanup fires at t0 + k*tick exactly
	lockParked        = make(chan struct{}, 1)
	lockResume        = make(chan struct{})
	cleanParked       = make(chan struct{}, 1)
	cleanResume       = make(chan struct{})
	raceSeq           int
)

func gate(point string) {
	switch point {
	case "rl:lock":
		if armLock {
			armLock = false
			lockParked <- struct{}{}
			<-lockResume
		}
	case "rl:clean":
		// limiters of earlier scripts keep their tickers; they were created at other phases of the virtual clock
		if armClean && time.Since(raceT0)%tick == 0 {
			armClean = false
			cleanParked <- struct{}{}
			<-cleanResume
		}
	}
}

func runRace(sc script) {
	raceSeq++
	time.Sleep(time.Duration(raceSeq%400) * time.Second) // a phase of its own for this script's limiter
	refill := time.Duration(sc.Cf.R) * tick
	raceT0 = time.Now()
	shared := ratelimiter.NewTokenBucketRateLimiter(sc.Cf.Max, refill)
	time.Sleep(tick / 2)
	emit(map[string]any{"ev": "cfg", "id": sc.ID, "cf": sc.Cf})
	ip := "10.0.0.1"
	slowDone := make(chan bool, 1)
	inFlight, parked := false, false
	for _, st := range sc.Steps {
		switch st.A {
		case "allow":
			res := shared.Allow(ip)
			emit(map[string]any{"ev": "allow", "c": 1, "res": res, "solo": res})
		case "get":
			if inFlight {
				emit(map[string]any{"ev": "drift", "why": "slow caller already in flight"})
				continue
			}
			armLock = true
			go func() { slowDone <- shared.Allow(ip) }()
			<-lockParked
			inFlight = true
			emit(map[string]any{"ev": "get", "c": 1})
		case "spend":
			if !inFlight {
				emit(map[string]any{"ev": "drift", "why": "no slow caller in flight"})
				continue
			}
			lockResume <- struct{}{}
			res := <-slowDone
			inFlight = false
			emit(map[string]any{"ev": "allow", "c": 1, "res": res, "solo": res})
		case "tick":
			emit(map[string]any{"ev": "tick", "n": 1})
			time.Sleep(tick)
		case "tickpark":
			armClean = true
			emit(map[string]any{"ev": "tick", "n": 1})
			time.Sleep(tick)
			select {
			case <-cleanParked:
				parked = true
			default:
				armClean = false
				emit(map[string]any{"ev": "drift", "why": "the cleanup pass found no bucket to look at"})
			}
		case "cleanresume":
			if !parked {
				emit(map[string]any{"ev": "drift", "why": "cleanup pass is not parked"})
				continue
			}
			cleanResume <- struct{}{}
			parked = false
			for i := 0; i < 20; i++ {
				runtime.Gosched() // the pass runs to its end (it does not block)
			}
		}
	}
	// leave nothing parked behind
	if parked {
		cleanResume <- struct{}{}
	}
	if inFlight {
		lockResume <- struct{}{}
		<-slowDone
	}
}

func run(sc script) {
	if sc.Race {
		runRace(sc)
		return
	}
	refill := time.Duration(sc.Cf.R) * tick
	shared := ratelimiter.NewTokenBucketRateLimiter(sc.Cf.Max, refill)
	solo := map[int]*ratelimiter.TokenBucketRateLimiter{}
	for c := 1; c <= 4; c++ {
		solo[c] = ratelimiter.NewTokenBucketRateLimiter(sc.Cf.Max, refill)
	}
	time.Sleep(tick / 2) // cleanup tickers now fire half-way between driver ticks
	emit(map[string]any{"ev": "cfg", "id": sc.ID, "cf": sc.Cf})
	for _, st := range sc.Steps {
		switch st.A {
		case "tick":
			n := st.N
			if n == 0 {
				n = 1
			}
			emit(map[string]any{"ev": "tick", "n": n})
			time.Sleep(time.Duration(n) * tick)
		case "allow":
			ip := fmt.Sprintf("10.0.0.%d", st.C)
			res := shared.Allow(ip)
			s := solo[st.C].Allow(ip)
			emit(map[string]any{"ev": "allow", "c": st.C, "res": res, "solo": s})
		}
	}
}

func main() {
	debug.SetGCPercent(-1)
	runtime.GOMAXPROCS(1)
	installGate()
	in, err := os.Open(os.Args[1])
	if err != nil {
		panic(err)
	}
	of, err := os.Create(os.Args[2])
	if err != nil {
		panic(err)
	}
	out = bufio.NewWriterSize(of, 1<<20)
	dec := json.NewDecoder(bufio.NewReaderSize(in, 1<<20))
	n := 0
	for dec.More() {
		var sc script
		if err := dec.Decode(&sc); err != nil {
			panic(err)
		}
		run(sc)
		n++
	}
	out.Flush()
	of.Close()
	os.WriteFile(os.Args[2]+".ok", []byte(fmt.Sprint(n)), 0o644)
}
