// limsim -- replay harness for the token-bucket rate limiter (C09).
// Scripts (from spec/Limiter.tla via MCLimiter) are executed on a real
// ratelimiter.TokenBucketRateLimiter under virtual time.  One model tick is
// 600 s (the limiter's cleanup ticker period); the driver's ticks are offset
// by 300 s so that the hourly-cutoff cleanup always fires between two ticks.
// Next to the shared limiter every client also has a private limiter of the
// same configuration that only ever sees that client (isolation clause).
package main

import (
	"bufio"
	"encoding/json"
	"fmt"
	"os"
	"runtime"
	"runtime/debug"
	"time"

	"github.com/0xReLogic/Helios/internal/ratelimiter"
)

type cfg struct {
	Max int `json:"max"`
	R   int `json:"r"`
}
type step struct {
	A string `json:"a"`
	C int    `json:"c"`
	N int    `json:"n"`
}
type script struct {
	ID    string `json:"id"`
	Cf    cfg    `json:"cf"`
	Steps []step `json:"steps"`
}

const tick = 600 * time.Second

var out *bufio.Writer

func emit(v map[string]any) {
	b, _ := json.Marshal(v)
	out.Write(b)
	out.WriteByte('\n')
}

func run(sc script) {
	refill := time.Duration(sc.Cf.R) * tick
	shared := ratelimiter.NewTokenBucketRateLimiter(sc.Cf.Max, refill)
	solo := map[int]*ratelimiter.TokenBucketRateLimiter{}
	for c := 1; c <= 4; c++ {
		solo[c] = ratelimiter.NewTokenBucketRateLimiter(sc.Cf.Max, refill)
	}
	time.Sleep(tick / 2) // cleanup tickers now fire half-way between driver ticks
	emit(map[string]any{"ev": "cfg", "id": sc.ID, "cf": sc.Cf})
	for _, st := range sc.Steps {
		switch st.A {
		case "tick":
			n := st.N
			if n == 0 {
				n = 1
			}
			emit(map[string]any{"ev": "tick", "n": n})
			time.Sleep(time.Duration(n) * tick)
		case "allow":
			ip := fmt.Sprintf("10.0.0.%d", st.C)
			res := shared.Allow(ip)
			s := solo[st.C].Allow(ip)
			emit(map[string]any{"ev": "allow", "c": st.C, "res": res, "solo": s})
		}
	}
}

func main() {
	debug.SetGCPercent(-1)
	runtime.GOMAXPROCS(1)
	in, err := os.Open(os.Args[1])
	if err != nil {
		panic(err)
	}
	of, err := os.Create(os.Args[2])
	if err != nil {
		panic(err)
	}
	out = bufio.NewWriterSize(of, 1<<20)
	dec := json.NewDecoder(bufio.NewReaderSize(in, 1<<20))
	n := 0
	for dec.More() {
		var sc script
		if err := dec.Decode(&sc); err != nil {
			panic(err)
		}
		run(sc)
		n++
	}
	out.Flush()
	of.Close()
	os.WriteFile(os.Args[2]+".ok", []byte(fmt.Sprint(n)), 0o644)
}
