//go:build !verif

package main

func installGate() { _ = gate }
