//go:build verif

package main

import "github.com/0xReLogic/Helios/internal/ratelimiter"

func installGate() { ratelimiter.VerifGate = gate }
