// walker: turns the transitions TLC emitted ("TR {from,act,to}" / "IN {s,cf}"
// lines printed by the Emit / EmitInit operators of the MC* modules) into
// covering walks: for every initial state, a set of action sequences starting
// there that together traverse every reachable transition at least once.
// Greedy: follow untraversed edges; when stuck, BFS to the nearest state that
// still has one; start a new walk (BFS-tree path from the initial state) when
// the walk is long enough.  Prints a self-check (transitions vs. covered).
package main

import (
	"bufio"
	"encoding/json"
	"fmt"
	"os"
	"strconv"
	"strings"
)

type tr struct {
	From string          `json:"from"`
	Act  json.RawMessage `json:"act"`
	To   string          `json:"to"`
}
type in struct {
	S  string          `json:"s"`
	Cf json.RawMessage `json:"cf"`
}
type edge struct {
	act int
	to  int
}

func main() {
	if len(os.Args) < 4 {
		fmt.Fprintln(os.Stderr, "usage: walker <tlc-output> <walks.ndjson> <max_len>")
		os.Exit(2)
	}
	maxLen, _ := strconv.Atoi(os.Args[3])
	f, err := os.Open(os.Args[1])
	if err != nil {
		panic(err)
	}
	ids := map[string]int{}
	id := func(s string) int {
		if v, ok := ids[s]; ok {
			return v
		}
		ids[s] = len(ids)
		return len(ids) - 1
	}
	var acts []json.RawMessage
	actID := map[string]int{}
	var out [][]edge
	type ekey struct{ f, a, t int }
	seen := map[ekey]bool{}
	var inits []in
	sc := bufio.NewScanner(f)
	sc.Buffer(make([]byte, 1<<20), 1<<26)
	for sc.Scan() {
		line := sc.Text()
		isTR := strings.HasPrefix(line, "\"TR ")
		isIN := strings.HasPrefix(line, "\"IN ")
		if !isTR && !isIN {
			continue
		}
		var s string
		if err := json.Unmarshal([]byte(line), &s); err != nil {
			panic("bad line: " + line[:80])
		}
		if isIN {
			var x in
			if err := json.Unmarshal([]byte(s[3:]), &x); err != nil {
				panic(err)
			}
			inits = append(inits, x)
			continue
		}
		var x tr
		if err := json.Unmarshal([]byte(s[3:]), &x); err != nil {
			panic(err)
		}
		fi, ti := id(x.From), id(x.To)
		ak := string(x.Act)
		ai, ok := actID[ak]
		if !ok {
			ai = len(acts)
			actID[ak] = ai
			acts = append(acts, x.Act)
		}
		k := ekey{fi, ai, ti}
		if seen[k] {
			continue
		}
		seen[k] = true
		for len(out) <= fi || len(out) <= ti {
			out = append(out, nil)
		}
		out[fi] = append(out[fi], edge{ai, ti})
	}
	n := len(ids)
	for len(out) < n {
		out = append(out, nil)
	}
	of, err := os.Create(os.Args[2])
	if err != nil {
		panic(err)
	}
	w := bufio.NewWriterSize(of, 1<<20)
	total, covered, nwalks, nsteps := 0, 0, 0, 0
	unt := make([]int, n)
	for i := range out {
		unt[i] = len(out[i])
		total += len(out[i])
	}
	stamp := make([]int, n)
	type pe struct {
		from, act int
	}
	bpar := make([]pe, n)
	epoch := 0
	emitWalk := func(ii int, walk []int) {
		if len(walk) == 0 {
			return
		}
		fmt.Fprintf(w, "{\"init\":%d,\"cf\":%s,\"acts\":[", ii, string(inits[ii].Cf))
		for k, a := range walk {
			if k > 0 {
				w.WriteByte(',')
			}
			w.Write(acts[a])
		}
		w.WriteString("]}\n")
		nwalks++
		nsteps += len(walk)
	}
	for ii, ini := range inits {
		start, ok := ids[ini.S]
		if !ok {
			continue
		}
		// BFS tree from start
		tpar := make([]pe, n)
		depth := make([]int, n)
		vis := make([]bool, n)
		vis[start] = true
		tpar[start] = pe{-1, -1}
		order := []int{start}
		for qi := 0; qi < len(order); qi++ {
			x := order[qi]
			for _, e := range out[x] {
				if !vis[e.to] {
					vis[e.to] = true
					tpar[e.to] = pe{x, e.act}
					depth[e.to] = depth[x] + 1
					order = append(order, e.to)
				}
			}
		}
		pathFromInit := func(j int) []int {
			var p []int
			for tpar[j].from >= 0 {
				p = append(p, tpar[j].act)
				j = tpar[j].from
			}
			for a, b := 0, len(p)-1; a < b; a, b = a+1, b-1 {
				p[a], p[b] = p[b], p[a]
			}
			return p
		}
		remaining := 0
		for _, x := range order {
			remaining += unt[x]
		}
		pend := 0 // index into order (shallowest first)
		cur := start
		var walk []int
		queue := make([]int, 0, 1024)
		for remaining > 0 {
			if unt[cur] > 0 && len(walk) < maxLen {
				unt[cur]--
				e := out[cur][unt[cur]]
				remaining--
				covered++
				walk = append(walk, e.act)
				cur = e.to
				continue
			}
			moved := false
			if len(walk) < maxLen {
				epoch++
				stamp[cur] = epoch
				bpar[cur] = pe{-1, -1}
				queue = queue[:0]
				queue = append(queue, cur)
				found := -1
				// the search for the nearest state with an untraversed edge is cut off after 5000 states: a new walk
				// from the initial state (below) reaches what is left, coverage is unaffected
				for qi := 0; qi < len(queue) && found < 0 && qi < 5000; qi++ {
					x := queue[qi]
					for _, e := range out[x] {
						if stamp[e.to] != epoch {
							stamp[e.to] = epoch
							bpar[e.to] = pe{x, e.act}
							if unt[e.to] > 0 {
								found = e.to
								break
							}
							queue = append(queue, e.to)
						}
					}
				}
				if found >= 0 {
					var p []int
					for y := found; bpar[y].from >= 0; y = bpar[y].from {
						p = append(p, bpar[y].act)
					}
					for a, b := 0, len(p)-1; a < b; a, b = a+1, b-1 {
						p[a], p[b] = p[b], p[a]
					}
					walk = append(walk, p...)
					cur = found
					moved = true
				}
			}
			if moved {
				continue
			}
			emitWalk(ii, walk)
			for pend < len(order) && unt[order[pend]] == 0 {
				pend++
			}
			if pend >= len(order) {
				walk = nil
				break
			}
			tgt := order[pend]
			walk = pathFromInit(tgt)
			cur = tgt
		}
		emitWalk(ii, walk)
	}
	w.Flush()
	of.Close()
	fmt.Printf("{\"transitions\":%d,\"covered\":%d,\"walks\":%d,\"steps\":%d,\"states\":%d,\"inits\":%d}\n", total, covered, nwalks, nsteps, n, len(inits))
}
