module walker

go 1.20
