"""C20 tunnel clause: WebSocket sessions through Helios with every short plugin chain."""
import vlib, cases, c01


def run(chk, sd, tier):
    binp = c01.build(sd)
    cs, r = cases.enumerate_cases("GenTunnel", "GenTunnelThorough.cfg" if tier == "thorough" else "GenTunnelQuick.cfg")
    chk.add_tlc("tunnel cases: plugin chains x message scripts x closer x ID middleware (spec/Tunnel.tla)", r)
    tp = cases.execute([binp, "ws"], cs, sd, "ws", timeout=3000, extra_args=[str(vlib.seed()), "32"])
    chk.cov["traces_validated_against_impl"] += len(cs)
    chk.cov["tunnel_sessions"] = len(cs)
    for c in cs:
        chk.count_case(c)

    def sig(clause, e):
        return {"clause": clause, "chain": e["c"]["chain"], "script": e["c"]["script"], "closer": e["c"]["closer"], "error": e["o"].get("error")}
    cases.judge(chk, "ObsTunnelTrace", "ObsTunnelTrace.cfg", tp, sig, "ws")
    chk.sample({"tunnel_case": cs[len(cs) // 2]})
