"""C12 concurrency safety: no data races, panics or deadlocks."""
import json, os, re, glob, itertools
import vlib, cases, pool_common as pc


def run(tier):
    chk = vlib.Check("C12", tier)
    sd = vlib.scratch("c12")
    binp = vlib.go_build("racesim", "internal/zz_verif/racesim", ["racesim/main.go"], sd, race=True,
                         extra_overlay={"internal/loadbalancer/zz_verif_export.go": "accessors/lb_verif_export.go"})
    # workload: covering walks of the pool model with every kind of operation
    scripts = []
    for nm, c in (("admin", pc.consts(pc.STRATS, N=2, N0=1, weight="W321", win=1, passive=False, mark=True, admin=True, clients=(1,), outcomes=("ok", "abort"))),
                  ("mix", pc.consts(["round_robin"], N=2, N0=2, weight="W111", win=1, thr=2, passive=True, mark=True, maxhold=0, clients=(1, 2),
                                    outcomes=("ok", "fail", "abort", "cancel")))):
        g = pc.tlc_cfg("MCPool", pc.cfg_text(c), "gen.cfg", workers=8, timeout=240)
        chk.add_tlc("workload source [%s]: transitions of spec/Pool.tla" % nm, g)
        sc, ntr = pc.scripts_from(g, nm, max_len=80)
        scripts += sc
    import random
    random.Random(vlib.seed()).shuffle(scripts)
    walks = [s["steps"] + [{"a": "snap"}] for s in scripts]
    per = 48 if tier == "thorough" else 24
    groups = []
    combos = list(itertools.product([False, True], repeat=4))     # cb, rl, active, wspool
    k = 0
    for st in pc.STRATS:
        for (cb, rl, active, ws) in (combos if tier == "thorough" else [combos[0], combos[-1], combos[5 + (k % 5)]]):
            ws_ = [walks[(k * per + i) % len(walks)] for i in range(per)]
            # strategy switches make every walk exercise the others too
            groups.append({"id": "g%d" % k, "strategy": st, "cb": cb, "rl": rl, "active": active, "passive": True,
                           "wspool": ws, "plugins": k % 2 == 0, "walks": ws_})
            k += 1
    gp = os.path.join(sd, "groups.ndjson")
    tp = os.path.join(sd, "race.trace.ndjson")
    vlib.write_ndjson(gp, groups)
    env = dict(os.environ, GORACE="log_path=%s halt_on_error=0 history_size=3" % os.path.join(sd, "racelog"))
    vlib.run([binp, gp, tp], timeout=3000, env=env, ok_codes=(0, 66))   # 66: the race detector's exit status when it reported races
    if not os.path.exists(tp + ".ok"):
        raise vlib.FrameworkError("racesim did not finish")
    ev = vlib.read_ndjson(tp)
    # the concurrent-history harnesses of C11 / C20 (admin actors + clients, pool users in real parallel) once more,
    # built with the race detector: their schedules are another workload for it (histories are not judged here)
    rnd = random.Random(vlib.seed() + 1)
    for hname, files, gen, n in (("linsim", ["linsim/main.go"], "GenLin", 400 if tier == "thorough" else 120),
                                 ("poolconc", ["poolconc/main.go"], "GenLinPool", 1500 if tier == "thorough" else 400)):
        hb = vlib.go_build(hname + "_race", "internal/zz_verif/" + hname, [hname + "/main.go"], sd, race=True,
                           extra_overlay={"internal/loadbalancer/zz_verif_export.go": "accessors/lb_verif_export.go"})
        cs, r = cases.enumerate_cases(gen, gen + ".cfg", env={"TIER": "quick"})
        sample = rnd.sample(cs, min(n, len(cs)))
        cp = os.path.join(sd, hname + ".race.cases.ndjson")
        op = os.path.join(sd, hname + ".race.out.ndjson")
        vlib.write_ndjson(cp, sample)
        vlib.run([hb, cp, op, "2"], timeout=3000, env=env, ok_codes=(0, 66))
        if not os.path.exists(op + ".ok"):
            raise vlib.FrameworkError(hname + " (race build) did not finish")
        chk.cov["race_workload_" + hname] = len(sample)
        try:
            if json.load(open(op + ".ok")).get("stuck"):
                # an operation of a concurrent history never returned (the harness's 20 s watchdog): a deadlock
                ev.append({"ev": "group", "name": hname + " (race build)", "panics": [], "stuck": True, "ops": 1})
        except ValueError:
            pass
    # one event per distinct race report (signature: the two access sites in Helios code)
    seen = {}
    for f in glob.glob(os.path.join(sd, "racelog*")):
        txt = open(f, errors="replace").read()
        for rep in txt.split("WARNING: DATA RACE")[1:]:
            sites = re.findall(r"\n\s+(github.com/0xReLogic/Helios/\S+)\(\)\n\s+(\S+?):(\d+)", rep)
            top = []
            for blk in re.split(r"\n(?:Previous |Goroutine )", rep)[:2]:
                m = re.search(r"\n\s+(github.com/0xReLogic/Helios/internal/(?!zz_verif)\S+)\(\)\n\s+\S+/(internal/\S+?):(\d+)", blk)
                if m:
                    top.append("%s %s" % (m.group(1).split("Helios/")[1], m.group(2)))
            sigs = " <-> ".join(sorted(top)) or "unattributed"
            seen.setdefault(sigs, rep[:1500])
    for s in sorted(seen):
        ev.append({"ev": "race", "sig": s})
    jp = os.path.join(sd, "race.joined.ndjson")
    vlib.write_ndjson(jp, [dict(e, panics=e.get("panics", []), stuck=e.get("stuck", False), ops=e.get("ops", 1)) for e in ev])
    chk.cov["traces_validated_against_impl"] = len(groups)
    chk.cov["operations_executed"] = sum(e.get("ops", 0) for e in ev if e["ev"] == "group")
    chk.cov["goroutines_per_run"] = per + 4
    for gr in groups:
        chk.count_case([gr["id"], gr["strategy"], gr["cb"], gr["rl"], gr["active"], gr["wspool"]])

    def sig(clause, e):
        if e["ev"] == "race":
            return {"clause": clause, "sites": e["sig"]}
        return {"clause": clause, "group": e.get("id"), "strategy": e.get("strategy"), "panics": e.get("panics", [])[:3]}
    n = cases.judge(chk, "RaceObs", "RaceObs.cfg", jp, sig, "race")
    for s, rep in seen.items():
        os.makedirs(chk.keep_dir, exist_ok=True)
        with open(os.path.join(chk.keep_dir, "race-%s.txt" % re.sub(r"[^A-Za-z0-9]+", "_", s)[:80]), "w") as fh:
            fh.write(rep)
    chk.sample({"group": {k: groups[0][k] for k in ("id", "strategy", "cb", "rl", "active", "wspool", "plugins")}, "first_walk": groups[0]["walks"][0][:10]})
    chk.cov["exhaustive"] = False
    chk.cov["rule"] = ("%d concurrent walkers (operation sequences from the TLA+ pool model) + 3 readers + Stop against one balancer per "
                       "strategy x feature combination, under the Go race detector" % per)
    chk.assumptions += ["data-race verdicts are the Go race detector's happens-before analysis over the executed schedules; the TLA+ model supplies the workload",
                        "deadlock = the run does not finish within 90 s; panics are recovered and recorded"]
    chk.level = "model_checking"
    return chk.finish()
