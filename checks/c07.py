"""C07 circuit breaker safety."""
import os, json
import vlib, breaker_common as bc

CLAUSES = {"TripOnThreshold_OpenBlocks", "ReopenOnTrialFailure", "HalfOpenBudget",
           "RejectWhileClosed", "CloseOnlyAfterSuccesses"}


def run(tier):
    chk = vlib.Check("C07", tier)
    sd = vlib.scratch("c07")
    binp = bc.build_harness(sd)
    thorough = tier == "thorough"

    # 1. M |= P, sequential quotient, every configuration (exhaustive)
    r = vlib.tlc("MCBreaker", "MCBreakerSeq.cfg", workers=vlib.NCPU, timeout=600)
    chk.add_tlc("M|=P sequential, 108 configurations (ft,st,mr in 1..3; iv,to in 1..2)", r)
    if r.rc != 0:
        chk.notes.append("MODEL-CEX sequential: " + ",".join(r.invariant_violated))
        vlib.log("MODEL-CEX (not a verdict): sequential M violates " + ",".join(r.invariant_violated))

    # 2. every transition of the sequential model replayed on the real breaker
    r = bc.tlc_with_cfg("MCBreaker", bc.gen_cfg_text([1], "CfgAll", False), "gen.cfg", workers=8, timeout=900)
    scripts, ntr = bc.scripts_from_transitions(r, prefix="seq")
    tp = bc.replay(binp, scripts, sd, "seq", full=True)
    chk.cov["traces_validated_against_impl"] += len(scripts)
    chk.cov["replayed_transitions_sequential"] = ntr
    bc.judge(chk, tp, scripts, CLAUSES)
    bc.conformance(chk, tp, "sequential replay")
    for sc in scripts:
        chk.count_case([sc["id"]])
    chk.sample({"script": scripts[0]["id"], "cf": scripts[0]["cf"], "steps": scripts[0]["steps"][:12],
                "events": bc.segment(tp, scripts[0]["id"])[:12]})

    # 3. interleavings of 2 (quick) / 2 and 3 (thorough) callers, gate-scheduled on the real breaker
    plans = [([1, 2], "CfgBoundary")]
    if thorough:
        plans = [([1, 2], "CfgSmall"), ([1, 2, 3], "CfgBoundary")]
    for callers, cs in plans:
        nm = "%dcallers-%s" % (len(callers), cs)
        r = bc.tlc_with_cfg("MCBreaker", bc.mc_cfg_text(callers, cs, False, ["TypeOK"]), "mc.cfg",
                            workers=vlib.NCPU, timeout=1200)
        chk.add_tlc("M interleavings " + nm, r)
        if len(callers) == 3:
            # 12 M transitions: too many to emit and replay one by one; TLC random behaviours (every successor it
            # considers on the way is emitted) give a sample of ~10^5 transitions, replayed like the others
            r = bc.tlc_with_cfg("MCBreaker", bc.gen_cfg_text(callers, cs, False), "gen.cfg", workers=1, timeout=1800,
                                simulate="num=3000", depth=60)
        else:
            r = bc.tlc_with_cfg("MCBreaker", bc.gen_cfg_text(callers, cs, False), "gen.cfg", workers=8, timeout=1800)
        scripts, ntr = bc.scripts_from_transitions(r, prefix="conc" + nm)
        tp = bc.replay(binp, scripts, sd, "conc" + nm, full=True)
        chk.cov["traces_validated_against_impl"] += len(scripts)
        chk.cov["replayed_transitions_" + nm] = ntr
        bc.judge(chk, tp, scripts, CLAUSES, concurrent=True)
        bc.conformance(chk, tp, "gate-scheduled replay " + nm)
        for sc in scripts:
            chk.count_case([sc["id"]])
        chk.sample({"script": scripts[-1]["id"], "cf": scripts[-1]["cf"], "steps": scripts[-1]["steps"][:16]})
    system_level(chk, sd)
    # unbounded complement (TLA+ proof system): the counting invariant for every number of callers / clients and every configuration
    vlib.tlapm(chk, "BreakerProofs")
    # the composed request path (spec/System.tla): limiter ; breaker ; selection ; proxy ; counting
    import system_common, pool_common as _pc
    system_common.run(chk, sd, _pc.build_lbsim(sd), {"C07"}, plans=system_common.QUICK[:1] if tier != "thorough" else system_common.THOROUGH[:5])
    chk.cov["exhaustive"] = True
    chk.cov["rule"] = ("every transition of the TLA+ breaker model (all interleavings of its critical sections) "
                       "is executed on the real breaker via covering walks; a case = one replayed walk")
    chk.assumptions += ["one model tick = 1 s of virtual time; bounds of k ticks are configured as k+0.5 s",
                        "Go faketime runtime clock is faithful to time.Now/Sleep semantics"]
    return chk.finish()


def system_level(chk, sd):
    """'Failed proxied requests (5xx, unreachable backend, aborted response) are what count as failures':
    the sequential breaker model's walks are replayed through the whole balancer pipeline (lbsim, breaker
    enabled in the configuration), each model call becoming one client request whose backend exchange ends
    ok / 5xx / refused / aborted; the client-visible events are mapped 1:1 to the breaker observer's."""
    import os, json
    import pool_common as pc
    binp = pc.build_lbsim(sd)
    r = bc.tlc_with_cfg("MCBreaker", bc.gen_cfg_text([1], "CfgSys", False), "gen.cfg", workers=8, timeout=900)
    ws, stats = vlib.walks(r, max_len=200)
    scripts = []
    # "ejecting": passive checks on with threshold 1 -- every counted failure also ejects its backend; it still counts
    for variant, errplan in (("5xx", "s500"), ("refused", "refuse"), ("ejecting", "s500")):
        for j, w in enumerate(ws):
            cf = w["cf"]
            steps, rid = [], 0
            for a in w["acts"]:
                if a["a"] == "call":
                    rid += 1
                    plan = {"ok": "ok", "err": errplan, "panic": "abort"}[a["o"]]
                    steps.append({"a": "req", "id": rid, "client": "10.0.0.1", "plan": plan})
                elif a["a"] == "tick":
                    steps.append({"a": "tick", "n": 1})
            scripts.append({"id": "sys-%s-%d-%d" % (variant, w["init"], j), "bcf": cf,
                            "cfg": {"strategy": "round_robin",
                                    "backends": [{"name": "b%d" % k, "w": 1} for k in range(1, 5 if variant == "ejecting" else 2)],
                                    "passive": {"on": variant == "ejecting", "thr": 1, "win": 1}, "active": {"on": False, "iv": 1},
                                    "cb": {"on": True, "ft": cf["ft"], "st": cf["st"], "mr": cf["mr"], "iv": cf["iv"], "to": cf["to"]}},
                            "steps": steps})
    tp = pc.replay(binp, scripts, sd, "sys")
    # 1:1 mapping of the balancer-level events to the breaker observer's vocabulary
    by_id = {s["id"]: s for s in scripts}
    out = []
    disp = set()
    for e in vlib.read_ndjson(tp):
        if e["ev"] == "cfg":
            out.append({"ev": "cfg", "id": e["id"], "cf": by_id[e["id"]]["bcf"]})
            disp = set()
        elif e["ev"] == "tick":
            out.append({"ev": "tick", "n": e["n"]})
        elif e["ev"] == "req":
            out.append({"ev": "call", "c": 1})
        elif e["ev"] == "dispatch":
            disp.add(e["id"])
            out.append({"ev": "admit", "c": 1})
        elif e["ev"] == "reply":
            if e["kind"] == "cb_open":
                out.append({"ev": "reject", "c": 1, "kind": "open"})
            elif e["kind"] == "cb_too_many":
                out.append({"ev": "reject", "c": 1, "kind": "many"})
            elif e["id"] in disp:
                failed = e["kind"] == "aborted" or e["status"] >= 500
                out.append({"ev": "done", "c": 1, "o": "err" if failed else "ok", "state": "none"})
            else:
                out.append({"ev": "drift", "why": "reply without dispatch: " + e["kind"], "c": 1})
    mp = os.path.join(sd, "sys.mapped.ndjson")
    vlib.write_ndjson(mp, out)
    chk.cov["traces_validated_against_impl"] += len(scripts)
    chk.cov["replayed_transitions_system_level"] = stats["transitions"] * 3
    viols, pr = vlib.observe("ObsBreakerTrace", "ObsBreakerTrace.cfg", mp)
    chk.add_tlc("P:ObsBreakerTrace over balancer-level replay", pr)
    for v in viols:
        for vv in v["v"]:
            if vv["clause"] not in CLAUSES:
                continue
            sc = by_id.get(v["seg"], {})
            sig = {"clause": vv["clause"], "mode": vv["mode"], "cause": vv["cause"], "info": vv["info"],
                   "class": "system-" + v["seg"].split("-")[1], "cf": sc.get("bcf")}
            chk.violation(sig, [{"script": sc}] + pc.segment(tp, v["seg"]), name="%s-%s.ndjson" % (vv["clause"], v["seg"]))
