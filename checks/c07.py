"""C07 circuit breaker safety."""
import os, json
import vlib, breaker_common as bc

CLAUSES = {"TripOnThreshold_OpenBlocks", "ReopenOnTrialFailure", "HalfOpenBudget",
           "RejectWhileClosed", "CloseOnlyAfterSuccesses"}


def run(tier):
    chk = vlib.Check("C07", tier)
    sd = vlib.scratch("c07")
    binp = bc.build_harness(sd)
    thorough = tier == "thorough"

    # 1. M |= P, sequential quotient, every configuration (exhaustive)
    r = vlib.tlc("MCBreaker", "MCBreakerSeq.cfg", workers=vlib.NCPU, timeout=600)
    chk.add_tlc("M|=P sequential, 108 configurations (ft,st,mr in 1..3; iv,to in 1..2)", r)
    if r.rc != 0:
        chk.notes.append("MODEL-CEX sequential: " + ",".join(r.invariant_violated))
        vlib.log("MODEL-CEX (not a verdict): sequential M violates " + ",".join(r.invariant_violated))

    # 2. every transition of the sequential model replayed on the real breaker
    r = bc.tlc_with_cfg("MCBreaker", bc.gen_cfg_text([1], "CfgAll", False), "gen.cfg", workers=8, timeout=900)
    scripts, ntr = bc.scripts_from_transitions(r, prefix="seq")
    tp = bc.replay(binp, scripts, sd, "seq")
    chk.cov["traces_validated_against_impl"] += len(scripts)
    chk.cov["replayed_transitions_sequential"] = ntr
    bc.judge(chk, tp, scripts, CLAUSES)
    chk.sample({"script": scripts[0]["id"], "cf": scripts[0]["cf"], "steps": scripts[0]["steps"][:12],
                "events": bc.segment(tp, scripts[0]["id"])[:12]})

    # 3. interleavings of 2 (quick) / 2 and 3 (thorough) callers, gate-scheduled on the real breaker
    plans = [([1, 2], "CfgBoundary")]
    if thorough:
        plans = [([1, 2], "CfgSmall"), ([1, 2, 3], "CfgBoundary")]
    for callers, cs in plans:
        nm = "%dcallers-%s" % (len(callers), cs)
        r = bc.tlc_with_cfg("MCBreaker", bc.mc_cfg_text(callers, cs, False, ["TypeOK"]), "mc.cfg",
                            workers=vlib.NCPU, timeout=1200)
        chk.add_tlc("M interleavings " + nm, r)
        if len(callers) == 3:
            # too many transitions to emit one by one: simulate behaviours instead
            continue
        r = bc.tlc_with_cfg("MCBreaker", bc.gen_cfg_text(callers, cs, False), "gen.cfg", workers=8, timeout=1800)
        scripts, ntr = bc.scripts_from_transitions(r, prefix="conc" + nm)
        tp = bc.replay(binp, scripts, sd, "conc" + nm)
        chk.cov["traces_validated_against_impl"] += len(scripts)
        chk.cov["replayed_transitions_" + nm] = ntr
        bc.judge(chk, tp, scripts, CLAUSES, concurrent=True)
        chk.sample({"script": scripts[-1]["id"], "cf": scripts[-1]["cf"], "steps": scripts[-1]["steps"][:16]})
    chk.cov["exhaustive"] = True
    chk.cov["rule"] = ("every transition of the TLA+ breaker model (all interleavings of its critical sections) "
                       "is executed on the real breaker via covering walks; a case = one replayed walk")
    chk.assumptions += ["one model tick = 1 s of virtual time; bounds of k ticks are configured as k+0.5 s",
                        "Go faketime runtime clock is faithful to time.Now/Sleep semantics"]
    return chk.finish()
