"""C10 admin API access control: bearer token and IP allow/deny fail closed."""
import random
import vlib, cases


def run(tier):
    chk = vlib.Check("C10", tier)
    sd = vlib.scratch("c10")
    binp = vlib.go_build("adminsim", "internal/zz_verif/adminsim", ["adminsim/main.go"], sd)
    ip, r1 = cases.enumerate_cases("GenAdminPolicy", "GenAdminIp.cfg")
    au, r2 = cases.enumerate_cases("GenAdminPolicy", "GenAdminAuth.cfg")
    chk.add_tlc("case space IP layer (lists x peer x forged headers x family)", r1)
    chk.add_tlc("case space auth layer (token x Authorization spelling x endpoint x method)", r2)
    rnd = random.Random(vlib.seed())
    if tier == "quick":
        # all v4 cases without X-Real-IP + a seeded sample of the rest
        nest = lambda c: c["malformed"] == "none" and c["xff"] == "absent" and c["xri"] == "absent" and \
            all(n["p"] == 0 or (n["p"], n["len"]) == (1, 1) for n in c["allow"] + c["deny"])
        core = [c for c in ip if (c["family"] == "v4" and c["xri"] == "absent") or c["rev"] or nest(c)]
        rest = [c for c in ip if not ((c["family"] == "v4" and c["xri"] == "absent") or c["rev"] or nest(c))]
        ip = core + rnd.sample(rest, 20000)
        chk.cov["exhaustive"] = False
    else:
        chk.cov["exhaustive"] = True
    # product of the two layers by sampling
    prod = []
    for i in range(3000 if tier == "quick" else 30000):
        a = dict(rnd.choice(ip))
        b = rnd.choice(au)
        for k in ("token", "authz", "endpoint", "method"):
            a[k] = b[k]
        prod.append(a)
    allc = ip + au + prod
    tp = cases.execute(binp, allc, sd, "admin")
    chk.cov["traces_validated_against_impl"] = len(allc)
    for c in allc[:50000]:
        chk.count_case(c)
    chk.cov["evaluations"] = len(allc)

    def sig(clause, e):
        c = e["c"]
        return {"clause": clause, "malformed": c["malformed"], "mkind": c.get("mkind"), "forged": c["xff"] != "absent" or c["xri"] != "absent",
                "authz": c["authz"], "endpoint": c["endpoint"], "family": c["family"], "status": e["o"]["status"]}
    cases.judge(chk, "ObsAdminTrace", "ObsAdminTrace.cfg", tp, sig, "admin")
    chk.sample({"case": allc[0]})
    chk.sample({"case": au[5]})
    chk.cov["rule"] = "abstract admin requests enumerated by TLC from spec/AdminPolicy.tla, each executed on the real admin mux"
    chk.assumptions += ["3-bit address lattice mapped to one /24 (v4), one /112 (v6) and IPv4-mapped peers",
                        "httptest.ResponseRecorder front (the policy is decided before any body is written)"]
    return chk.finish()
