"""C17 plugin chain: configured order, rejection stops the chain, startup fails closed."""
import vlib, cases


def run(tier):
    chk = vlib.Check("C17", tier)
    sd = vlib.scratch("c17")
    binp = vlib.go_build("chainsim", "internal/zz_verif/chainsim", ["chainsim/main.go"], sd,
                         extra_overlay={"internal/loadbalancer/zz_verif_export.go": "accessors/lb_verif_export.go"})
    cs, r = cases.enumerate_cases("GenChain", "GenChainThorough.cfg" if tier == "thorough" else "GenChainQuick.cfg")
    chk.add_tlc("chains x request classes enumerated from spec/Chain.tla", r)
    tp = cases.execute(binp, cs, sd, "chain")
    chk.cov["traces_validated_against_impl"] = len(cs)
    for c in cs:
        chk.count_case(c)

    def sig(clause, e):
        return {"clause": clause, "chain": e["c"]["chain"], "req": e["c"]["req"]}
    cases.judge(chk, "ObsChainTrace", "ObsChainTrace.cfg", tp, sig, "chain")
    chk.sample({"case": cs[len(cs) // 2]})
    chk.sample({"case": cs[-1]})
    chk.cov["exhaustive"] = True
    chk.cov["rule"] = ("every chain of length <= %d over 9 plugin tokens (distinct probes) x 6 request classes, and every chain "
                       "with exactly one invalid token at any position; executed through plugins.BuildChain around the real balancer"
                       % (4 if tier == "thorough" else 3))
    chk.assumptions += ["the chain is built with plugins.BuildChain directly (cmd/helios buildHandler, which wraps it, is package main)"]
    return chk.finish()
