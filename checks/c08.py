"""C08 circuit breaker liveness: never locks traffic out forever, never blocks."""
import os, json
import vlib, breaker_common as bc, graphs

CLAUSES = {"Recovers", "NeverBlocks"}


def recovery_scripts(r, prefix, per_state=True):
    """For every reachable state of the sequential model: the BFS path to it,
    then the recovery script.  (liveness quantifies over states, not paths)"""
    trs = r.printed("TR")
    inits = r.printed("IN")
    adj = graphs.build(trs)
    from collections import deque
    scripts = []
    nstates = 0
    for i, ini in enumerate(inits):
        cf = ini["cf"]
        par = {ini["s"]: None}
        dq = deque([ini["s"]])
        order = []
        while dq:
            s = dq.popleft()
            order.append(s)
            for (k, a, t) in adj.get(s, []):
                if t not in par:
                    par[t] = (s, a)
                    dq.append(t)
        nstates += len(order)
        for j, s in enumerate(order):
            if '"idle"' not in s.split("<<")[-2]:     # only quiescent states (no call in flight)
                continue
            p = []
            x = s
            while par[x] is not None:
                x, a = par[x][0], par[x][1]
                p.append(a)
            p.reverse()
            n = 2 * (cf["st"] + max(cf["mr"], 1)) + 2
            scripts.append({"id": "%s-%d-%d" % (prefix, i, j), "cf": cf, "via": "lb",
                            "steps": p + [{"a": "recover", "n": n}]})
            if cf["mr"] == 1 and j % 3 == 0:
                # max_requests left unset: whatever default the balancer picks must not starve
                scripts.append({"id": "%s-%d-%d-mr0" % (prefix, i, j), "cf": cf, "via": "lb", "mr0": True,
                                "steps": p + [{"a": "recover", "n": n}]})
    return scripts, nstates


def concurrent_recovery_scripts(r, prefix, limit):
    """liveness quantifies over every reachable state, also the ones only concurrent histories reach (a call that spans
    a trip and a timeout and completes late): BFS path to the state, the calls still in flight are let run to their
    end, then the recovery script"""
    from collections import deque
    adj = graphs.build(r.printed("TR"))
    scripts = []
    for i, ini in enumerate(r.printed("IN")):
        cf = ini["cf"]
        par = {ini["s"]: None}
        dq = deque([ini["s"]])
        order = []
        while dq:
            s = dq.popleft()
            order.append(s)
            for (k, a, t) in adj.get(s, []):
                if t not in par:
                    par[t] = (s, a)
                    dq.append(t)
        step = max(1, len(order) // limit)
        for j, s in enumerate(order):
            if j % step:
                continue
            p = []
            x = s
            while par[x] is not None:
                x, a = par[x][0], par[x][1]
                p.append(a)
            p.reverse()
            drain = [{"a": "step", "c": c} for _ in range(6) for c in (1, 2)]
            n = 2 * (cf["st"] + max(cf["mr"], 1)) + 2
            scripts.append({"id": "%s-%d-%d" % (prefix, i, j), "cf": cf, "via": "lb", "steps": p + drain + [{"a": "recover", "n": n}]})
    return scripts


def run(tier):
    chk = vlib.Check("C08", tier)
    sd = vlib.scratch("c08")
    binp = bc.build_harness(sd)
    thorough = tier == "thorough"

    # 1. liveness of the mechanism model for every configuration with max_requests >= success_threshold
    r = vlib.tlc("MCBreaker", "MCBreakerLive.cfg", workers=vlib.NCPU, timeout=1200)
    chk.add_tlc("M liveness (healed ~> closed; every call returns), 72 configurations, fairness, no state constraint", r)
    if r.rc != 0:
        chk.notes.append("MODEL-CEX liveness on M")
        vlib.log("MODEL-CEX (not a verdict): liveness fails on M")
    r2 = vlib.tlc("MCBreaker", "MCBreakerLiveStarve.cfg", workers=vlib.NCPU, timeout=600)
    chk.add_tlc("M liveness for max_requests < success_threshold (expected lasso: half-open starvation)", r2)
    chk.cov["model_lasso_for_mr_lt_st"] = (r2.rc == 13)

    # 2. recovery script from every reachable quiescent state, on the breaker the real
    #    balancer builds from every configuration the real validator accepts
    cfgset = "CfgAll" if thorough else "CfgQuick"
    r = bc.tlc_with_cfg("MCBreaker", bc.gen_cfg_text([1], cfgset, False), "gen.cfg", workers=8, timeout=900)
    scripts, nstates = recovery_scripts(r, "rec")
    scripts += bc.abort_variants(scripts)
    tp = bc.replay(binp, scripts, sd, "rec", timeout=1200)
    chk.cov["traces_validated_against_impl"] += len(scripts)
    chk.cov["reachable_states_probed"] = len(scripts)
    for s in scripts[:2000]:
        chk.count_case([s["cf"], len(s["steps"])])
    bc.judge(chk, tp, scripts, CLAUSES)
    # the same from the states of two concurrent callers, time passing while calls are in flight
    rc = bc.tlc_with_cfg("MCBreaker", bc.gen_cfg_text([1, 2], "CfgLive2", False, tick_busy=True, outcomes='{"ok", "err"}'), "genc.cfg", workers=8, timeout=1500)
    cscripts = concurrent_recovery_scripts(rc, "crec", 6000 if thorough else 1500)
    tpc = bc.replay(binp, cscripts, sd, "crec", timeout=2400)
    chk.cov["traces_validated_against_impl"] += len(cscripts)
    chk.cov["concurrent_states_probed"] = len(cscripts)
    bc.judge(chk, tpc, cscripts, CLAUSES, concurrent=True)
    # real parallelism (no gates, no virtual time): 4 and 16 clients through a tripped balancer whose timeout has passed,
    # budget = threshold = number of requests; nobody may wait forever and the breaker must close with the last success
    import dist_common
    dist_common.run(chk, sd, tier, ["cbstress"], {"C08"})
    chk.sample({"script": scripts[-1]["id"], "cf": scripts[-1]["cf"], "steps": scripts[-1]["steps"],
                "events": bc.segment(tp, scripts[-1]["id"])[-6:]})
    chk.cov["exhaustive"] = True
    chk.cov["rule"] = ("one case per reachable quiescent state of the sequential breaker model and configuration: "
                       "drive the breaker built by NewLoadBalancer there, let timeout elapse, 2(st+mr)+2 successes; "
                       "the last must be admitted and State()=closed")
    chk.assumptions += ["one model tick = 2 s of virtual time; k ticks configured as 2k+1 s",
                        "configurations: ft,st,mr in 1..3 (mr also 0 = default), interval/timeout 1..2 ticks"]
    return chk.finish()
