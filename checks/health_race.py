"""Fine-grained schedules of health transitions and of the gauge protocol (C04 / C13 race clauses):
HealthRace.tla model-checked by TLC, every transition replayed on the real balancer by the gate scheduler."""
import os
import vlib

CONFIGS = {"A": ("{1, 2, 3}", "OpsA", "FlagSafe MirrorSafe"), "C": ("{1, 2, 3}", "OpsC", "FlagSafe MirrorSafe"),
           "B": ("{1, 2, 3}", "OpsB", "FlagSafe MirrorSafe"), "G": ("{1, 2}", "OpsG", "GaugeSafe")}


def cfg(threads, ops, invs, gen, fixed=True):
    t = "CONSTANTS\n  Threads = %s\n  Ops <- %s\n  W = 2\n  MaxNow = 5\n  Fixed = %s\nINIT Init\nNEXT Next\nVIEW SView\nCHECK_DEADLOCK FALSE\n" % (threads, ops, "TRUE" if fixed else "FALSE")
    t += ("INVARIANTS EmitInit\nACTION_CONSTRAINT Emit\n" if gen else "INVARIANTS %s\n" % invs)
    return t


def tlc_cfg(text, name, **kw):
    wd = vlib.scratch("tlc")
    with open(os.path.join(wd, name), "w") as fh:
        fh.write(text)
    return vlib.tlc("MCHealthRace", name, workdir=wd, deadlock=False, **kw)


def run(chk, sd, which, props):
    binp = vlib.go_build("gatesim", "internal/zz_verif/gatesim", ["gatesim/main.go"], sd, faketime=True,
                         extra_overlay={"internal/loadbalancer/zz_verif_export.go": "accessors/lb_verif_export.go",
                                        "internal/loadbalancer/zz_verif_probe.go": "accessors/lb_verif_probe.go"})
    scripts = []
    ntr = 0
    for k in which:
        threads, ops, invs = CONFIGS[k]
        r = tlc_cfg(cfg(threads, ops, invs, False), "mc.cfg", workers=8, timeout=300)
        chk.add_tlc("HealthRace M (mechanism as repaired) config %s: %s" % (k, invs), r)
        if r.rc != 0:
            chk.notes.append("MODEL-CEX HealthRace " + k)
            vlib.log("MODEL-CEX (not a verdict): HealthRace config " + k)
        # schedules are generated from the finer-grained variant of the model (separate mirror-publish steps):
        # a superset of interleavings; steps the code no longer has are skipped as drift
        g = tlc_cfg(cfg(threads, ops, invs, True, fixed=False), "gen.cfg", workers=8, timeout=300)
        ws, stats = vlib.walks(g, max_len=60)
        ntr += stats["transitions"]
        for j, w in enumerate(ws):
            scripts.append({"id": "race%s-%d" % (k, j), "cf": w["cf"], "steps": w["acts"]})
    tp = vlib.run_chunked(binp, scripts, sd, "race", chunk=300)
    chk.cov["traces_validated_against_impl"] += len(scripts)
    chk.cov["replayed_interleaving_transitions"] = chk.cov.get("replayed_interleaving_transitions", 0) + ntr
    viols, pr = vlib.observe("ObsHealthRaceTrace", "ObsHealthRaceTrace.cfg", tp)
    chk.add_tlc("P:ObsHealthRaceTrace over gate-scheduled replay", pr)
    by_id = {s["id"]: s for s in scripts}
    ev = None
    for v in viols:
        for vv in v["v"]:
            if vv["prop"] not in props:
                continue
            sc = by_id.get(v["seg"], {})
            sig = {"clause": vv["clause"], "class": "schedule", "ops": sc.get("cf", {}).get("ops")}
            if vlib.match_known(chk.pid, sig):
                chk.violation(sig, [])
                continue
            if ev is None:
                ev = vlib.read_ndjson(tp)
            seg, on = [], False
            for e in ev:
                if e["ev"] == "cfg":
                    on = e["id"] == v["seg"]
                if on:
                    seg.append(e)
            chk.violation(sig, [{"script": sc, "line": v["line"]}] + seg, name="%s-%s.ndjson" % (vv["clause"], v["seg"]))
    if scripts:
        chk.sample({"interleaving_script": scripts[0]["id"], "ops": scripts[0]["cf"]["ops"], "steps": scripts[0]["steps"][:12]})
