"""C19 graceful shutdown completes, drains requests and stops probing."""
import os, json, time, socket, signal, subprocess, threading
import http.server
import vlib, cases, pool_common as pc


def script_for(i, c):
    cfg = {"strategy": c["strategy"], "backends": [{"name": "b1", "w": 1}, {"name": "b2", "w": 1}],
           "passive": {"on": False, "thr": 1, "win": 1}, "active": {"on": c["active"], "iv": 3, "to": 5}, "wspool": True}
    steps = []
    for k in range(c["conns"]):
        steps.append({"a": "poolput", "b": "b%d" % (k + 1)})
    if c["held"]:
        steps.append({"a": "req", "id": 1, "client": "10.0.0.1", "plan": "hold"})
    if c["at"] == "probe_in_flight":
        steps += [{"a": "setprobe", "b": "b1", "r": "hang"}, {"a": "tick", "n": 3}]
    elif c["at"] == "between_ticks":
        steps.append({"a": "tick", "n": 1})
    elif c["at"] == "after_ticks":
        steps.append({"a": "tick", "n": 7})
    if c["stops"] == "once":
        steps.append({"a": "stop"})
    elif c["stops"] == "twice_seq":
        steps += [{"a": "stop"}, {"a": "stop"}]
    else:
        steps.append({"a": "stop2"})
    steps.append({"a": "tick", "n": 7})
    if c["held"]:
        steps.append({"a": "release", "id": 1, "plan": "ok"})
    steps.append({"a": "poolcheck"})
    return {"id": "sd-%d" % i, "cfg": cfg, "steps": steps}


class _Backend(http.server.BaseHTTPRequestHandler):
    protocol_version = "HTTP/1.1"
    hits = []

    def log_message(self, *a):
        pass

    def do_GET(self):
        try:
            self._serve()
        except (BrokenPipeError, ConnectionResetError):
            pass

    def _serve(self):
        _Backend.hits.append((time.time(), self.path))
        if self.path == "/healthz":
            self.send_response(200); self.send_header("Content-Length", "2"); self.end_headers(); self.wfile.write(b"ok"); return
        body = b"x" * 20000
        if self.path == "/slowhdr":
            time.sleep(1.2)
        if self.path == "/verylong":
            time.sleep(7)
        self.send_response(200); self.send_header("Content-Length", str(len(body))); self.end_headers()
        if self.path == "/slowbody":
            self.wfile.write(body[:10000]); self.wfile.flush(); time.sleep(1.2); self.wfile.write(body[10000:])
        else:
            self.wfile.write(body)


def _free_port():
    s = socket.socket(); s.bind(("127.0.0.1", 0)); p = s.getsockname()[1]; s.close(); return p


def process_cases(sd, pcs):
    """the real cmd/helios binary: signal at a point of a slow request"""
    env = dict(vlib.GOENV, GOCACHE=os.environ.get("GOCACHE", "/var/tmp/helios-verif-gocache"))
    binp = os.path.join(sd, "helios")
    p = subprocess.run(["go", "build", "-o", binp, "./cmd/helios"], cwd=vlib.REPO, env=env, stdout=subprocess.PIPE, stderr=subprocess.STDOUT, text=True)
    if p.returncode != 0:
        raise vlib.FrameworkError("cannot build cmd/helios: " + p.stdout[-1500:])
    http.server.ThreadingHTTPServer.handle_error = lambda *a, **k: None
    srv = http.server.ThreadingHTTPServer(("127.0.0.1", 0), _Backend)
    bport = srv.server_address[1]
    threading.Thread(target=srv.serve_forever, daemon=True).start()
    out = []
    for c in pcs:
        port = _free_port()
        cfgp = os.path.join(sd, "proc.yaml")
        with open(cfgp, "w") as fh:
            fh.write("server:\n  port: %d\n  timeouts:\n    shutdown: %d\nbackends:\n  - name: \"b1\"\n    address: \"http://127.0.0.1:%d\"\n"
                     "load_balancer:\n  strategy: \"round_robin\"\nhealth_checks:\n  active:\n    enabled: %s\n    interval: 2\n    timeout: 1\n    path: \"/healthz\"\n"
                     "logging:\n  level: \"error\"\n  format: \"json\"\n" % (port, c.get("tmo", 4), bport, "true" if c["probing"] else "false"))
        proc = subprocess.Popen([binp, "-config", cfgp], stdout=subprocess.DEVNULL, stderr=subprocess.DEVNULL)
        try:
            for _ in range(100):
                try:
                    socket.create_connection(("127.0.0.1", port), timeout=0.2).close(); break
                except OSError:
                    time.sleep(0.05)
            res = {"status": 0, "complete": False}

            def client(path):
                try:
                    s = socket.create_connection(("127.0.0.1", port), timeout=10)
                    s.sendall(("GET %s HTTP/1.1\r\nHost: h\r\nConnection: close\r\n\r\n" % path).encode())
                    data = b""
                    while True:
                        d = s.recv(65536)
                        if not d:
                            break
                        data += d
                    head, _, body = data.partition(b"\r\n\r\n")
                    res["status"] = int(head.split()[1]) if head else 0
                    res["complete"] = len(body) == 20000
                except Exception as e:
                    res["err"] = str(e)
            th = None
            if c["point"] != "idle":
                th = threading.Thread(target=client, args=({"before_headers": "/slowhdr", "outlasts": "/verylong"}.get(c["point"], "/slowbody"),))
                th.start()
                time.sleep(0.5)
            t0 = time.time()
            proc.send_signal(signal.SIGTERM if c["sig"] == "TERM" else signal.SIGINT)
            if c.get("repeat", "none") != "none":
                # "repeated ... shutdown calls are harmless": a second stop signal while the request is draining
                time.sleep(0.3)
                if proc.poll() is None:
                    proc.send_signal(signal.SIGTERM if c["repeat"] == "TERM" else signal.SIGINT)
            try:
                rc = proc.wait(timeout=7)
            except subprocess.TimeoutExpired:
                proc.kill(); rc = -1
            ms = int((time.time() - t0) * 1000)
            texit = time.time()
            if th:
                th.join(timeout=5)
            time.sleep(2.2)   # would-be probe interval
            after = len([h for h in _Backend.hits if h[1] == "/healthz" and h[0] > texit + 0.05])
            out.append({"c": c, "o": {"exit": rc, "ms": ms, "status": res["status"], "complete": res["complete"], "probes_after": after}})
        finally:
            if proc.poll() is None:
                proc.kill()
    srv.shutdown()
    return out


def run(tier):
    chk = vlib.Check("C19", tier)
    sd = vlib.scratch("c19")
    # mechanism model: all interleavings of the ticker goroutine, probes and 1-2 Stop calls
    r = vlib.tlc("Shutdown", "MCShutdown.cfg", workers=vlib.NCPU, timeout=900, deadlock=False)
    chk.add_tlc("M (Shutdown.tla): NoProbeAfterStop, PoolClosedAfterStop, StopReturns under fairness; 2 backends, 2 ticks, 2 stoppers", r)
    if r.rc != 0:
        chk.notes.append("MODEL-CEX on Shutdown.tla")
        vlib.log("MODEL-CEX (not a verdict): Shutdown.tla")
    # unbounded complement (TLA+ proof system): the two safety clauses for any number of backends, rounds and Stop calls
    vlib.tlapm(chk, "ShutdownProofs")
    h = vlib.tlc("Shutdown", "MCShutdownHazard.cfg", workers=vlib.NCPU, timeout=300, deadlock=False)
    chk.add_tlc("M hazard: wg.Add from zero while Stop's Wait may run (model-only, inside sync.WaitGroup)", h)
    chk.cov["model_only_hazard_waitgroup_add_vs_wait"] = (h.rc == 12)
    cs, g = cases.enumerate_cases("GenShutdown", "GenShutdown.cfg")
    chk.add_tlc("scenario space (ShutdownCases.tla)", g)
    lb_cases = [c for c in cs if "sig" not in c]
    proc_cases = [c for c in cs if "sig" in c]
    binp = pc.build_lbsim(sd)
    scripts = [script_for(i, c) for i, c in enumerate(lb_cases)]
    tp = pc.replay(binp, scripts, sd, "sd")
    recs = []
    cur, o = None, None
    for e in vlib.read_ndjson(tp):
        if e["ev"] == "cfg":
            if cur is not None:
                recs.append({"c": cur, "o": o})
            cur = lb_cases[int(e["id"].split("-")[1])]
            o = {"stopped": False, "stuck": False, "probe_after": False, "pool_open": 0, "held_status": 0, "stop_ms": 0, "panic": ""}
        elif e["ev"] == "stopped":
            o["stopped"] = True
            o["stop_ms"] = max(o["stop_ms"], e.get("ms", 0))
            o["panic"] = o["panic"] or e.get("panic", "")
        elif e["ev"] == "stuck":
            o["stuck"] = True
        elif e["ev"] == "probe" and e.get("stopped"):
            o["probe_after"] = True
        elif e["ev"] == "poolcheck":
            o["pool_open"] = e["open"]
        elif e["ev"] == "reply" and e.get("id") == 1:
            o["held_status"] = e["status"]
    if cur is not None:
        recs.append({"c": cur, "o": o})
    if tier == "quick":
        proc_cases = [c for c in proc_cases if c["probing"] or c["point"] == "mid_body"]
    recs += process_cases(sd, proc_cases)
    jp = os.path.join(sd, "sd.joined.ndjson")
    vlib.write_ndjson(jp, recs)
    chk.cov["traces_validated_against_impl"] = len(recs)
    for rr in recs:
        chk.count_case(rr["c"])

    def sig(clause, e):
        return {"clause": clause, "case": e["c"], "observed": e["o"]}
    cases.judge(chk, "ObsShutdownTrace", "ObsShutdownTrace.cfg", jp, sig, "shutdown")
    chk.sample(recs[0])
    chk.sample(recs[-1])
    chk.cov["exhaustive"] = True
    chk.cov["rule"] = "every scenario of ShutdownCases.tla on the real balancer under virtual time, plus the real cmd/helios binary signalled at points of a slow request"
    chk.assumptions += ["interleavings inside sync.WaitGroup cannot be forced from outside: the Add-vs-Wait hazard is model-only",
                        "probe arrivals are ordered against Stop's return by a flag the harness sets after Stop returned"]
    return chk.finish()
