"""Shared pipeline for C07 / C08 / (C03 callback clause): TLA+ model Breaker
(M) composed with BreakerObs (P); transitions emitted by TLC are replayed on
the real circuit breaker under virtual time and the gate scheduler; recorded
events are judged by P (ObsBreakerTrace)."""
import json, os, subprocess
import vlib, graphs


def build_harness(sd):
    return vlib.go_build("breaker", "internal/zz_verif/breaker", ["breaker/main.go"], sd, faketime=True,
                         extra_overlay={"internal/loadbalancer/zz_verif_export.go": "accessors/lb_verif_export.go"})


def gen_cfg_text(callers, cfgset, cb, tick_busy=False, outcomes='{"ok", "err", "panic"}'):
    return """CONSTANTS
  Callers = {%s}
  CfgSet <- %s
  CbReenters = %s
  Outcomes = %s
  TickWhileBusy = %s
INIT MCInit
NEXT MCNext
VIEW View
INVARIANTS EmitInit
ACTION_CONSTRAINT Emit
""" % (",".join(str(c) for c in callers), cfgset, "TRUE" if cb else "FALSE", outcomes,
       "TRUE" if tick_busy else "FALSE")


def mc_cfg_text(callers, cfgset, cb, invariants, tick_busy=False, outcomes='{"ok", "err", "panic"}'):
    return """CONSTANTS
  Callers = {%s}
  CfgSet <- %s
  CbReenters = %s
  Outcomes = %s
  TickWhileBusy = %s
INIT MCInit
NEXT MCNext
VIEW View
INVARIANTS %s
""" % (",".join(str(c) for c in callers), cfgset, "TRUE" if cb else "FALSE", outcomes,
       "TRUE" if tick_busy else "FALSE", " ".join(invariants))


def tlc_with_cfg(module, cfg_text, name, **kw):
    wd = vlib.scratch("tlc")
    with open(os.path.join(wd, name), "w") as fh:
        fh.write(cfg_text)
    # tlc() copies the spec dir into wd; the generated cfg is already there
    return vlib.tlc(module, name, workdir=wd, **kw)


def scripts_from_transitions(r, cb=False, prefix="s", max_len=400):
    """Covering walks over TLC's emitted transitions -> replay scripts."""
    ws, stats = vlib.walks(r, max_len=max_len)
    scripts = [{"id": "%s-%d-%d" % (prefix, w["init"], j), "cf": w["cf"], "cb": cb, "steps": w["acts"]}
               for j, w in enumerate(ws)]
    scripts += abort_variants(scripts)
    return scripts, stats["transitions"]


def abort_variants(scripts):
    """the model's 'panic' outcome has two concrete forms: an arbitrary panic value and http.ErrAbortHandler
    (what an aborted proxied response raises); scripts with a panicking call are replayed in both forms"""
    out = []
    for s in scripts:
        if any(st.get("o") == "panic" for st in s["steps"]):
            t = dict(s)
            t["id"] = s["id"] + "-abort"
            t["abort"] = True
            out.append(t)
    return out


def replay(binp, scripts, sd, name, full=False, timeout=600):
    sp = os.path.join(sd, name + ".scripts.ndjson")
    tp = os.path.join(sd, name + ".trace.ndjson")
    vlib.write_ndjson(sp, scripts)
    cmd = [binp, sp, tp] + (["full"] if full else [])
    vlib.run(cmd, timeout=timeout)
    if not os.path.exists(tp + ".ok"):
        raise vlib.FrameworkError("breaker harness did not finish")
    return tp


def conformance(chk, tp, name):
    """code -> M: the full-mode trace (state after every gate step) validated against Breaker.tla by TLC
    (spec/TraceBreaker.tla).  Divergence says the MODEL does not describe the code at that step; it is reported
    and counted, never a property verdict."""
    r = vlib.tlc("TraceBreaker", "TraceBreaker.cfg", workers=1, timeout=1800, env={"TRACE_FILE": tp}, deadlock=False)
    if r.rc != 0:
        raise vlib.FrameworkError("TraceBreaker did not consume the trace (rc=%d):\n%s" % (r.rc, r.out[-2000:]))
    chk.add_tlc("M-conformance:TraceBreaker over " + name, r)
    div = r.printed("MDIV")
    c = chk.cov.setdefault("m_conformance", {"trace_lines": 0, "diverged_segments": 0, "first": []})
    c["trace_lines"] += r.distinct - 1
    c["diverged_segments"] += len(div)
    c["first"] += div[:3 - len(c["first"])] if len(c["first"]) < 3 else []
    if div:
        vlib.log("MODEL-DRIFT (not a verdict): %d replayed segments of %s take a step Breaker.tla cannot explain, first: %s"
                 % (len(div), name, json.dumps(div[0])[:400]))
    return div


_seg_cache = {}


def segment(trace_path, seg_id):
    """events of one script (cfg event with that id up to the next cfg)"""
    idx = _seg_cache.get(trace_path)
    if idx is None:
        idx = {}
        cur = None
        with open(trace_path) as fh:
            for line in fh:
                if '"ev":"cfg"' in line:
                    cur = json.loads(line).get("id")
                    idx[cur] = []
                if cur is not None:
                    idx[cur].append(line)
        _seg_cache[trace_path] = idx
    return [json.loads(x) for x in idx.get(seg_id, [])]


def judge(chk, trace_path, scripts, pid_clauses, concurrent=False):
    """Run P over the recorded trace; attribute violations of the clauses in
    pid_clauses to this check's property."""
    viols, r = vlib.observe("ObsBreakerTrace", "ObsBreakerTrace.cfg", trace_path)
    chk.add_tlc("P:ObsBreakerTrace", r)
    by_id = {s["id"]: s for s in scripts}
    n = 0
    with open(trace_path) as fh:
        d = sum(1 for line in fh if '"ev":"drift"' in line)
    if d:
        chk.cov["drift"] += d
        vlib.log("DRIFT: %d scripted steps had no counterpart on the real breaker (code left the mechanism model M)" % d)
    for v in viols:
        for vv in v["v"]:
            if vv["clause"] not in pid_clauses:
                continue
            sig = {"clause": vv["clause"], "mode": vv["mode"], "cause": vv["cause"], "info": vv["info"],
                   "class": "concurrent" if concurrent else "sequential"}
            sc = by_id.get(v["seg"], {})
            if sc:
                sig["cf"] = sc["cf"]
            if vlib.match_known(chk.pid, sig):
                chk.violation(sig, [])
            else:
                chk.violation(sig, [{"script": sc}] + segment(trace_path, v["seg"]),
                              name="%s-%s.ndjson" % (vv["clause"], v["seg"]))
            n += 1
    return n
