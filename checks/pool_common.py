"""Shared pipeline for the balancer-level properties (C02 C04 C05 C06 C11 C13):
Pool.tla (M) -> TLC emits every transition -> covering walks -> harness/lbsim
replays them on the real LoadBalancer under virtual time -> PoolObs (P) run by
TLC over the recorded events."""
import json, os
import vlib, graphs

STRATS = ["round_robin", "least_connections", "weighted_round_robin", "ip_hash", "ip_hash_consistent"]


def build_lbsim(sd):
    return vlib.go_build("lbsim", "internal/zz_verif/lbsim", ["lbsim/main.go"], sd, faketime=True,
                         extra_overlay={"internal/loadbalancer/zz_verif_export.go": "accessors/lb_verif_export.go"})


def consts(strategies, N=3, N0=3, weight="W321", win=1, thr=2, maxhold=0, clients=(1, 2), passive=True,
           active=False, admin=False, mark=False, badops=False, outcomes=("ok", "fail")):
    return dict(strategies=strategies, N=N, N0=N0, weight=weight, win=win, thr=thr, maxhold=maxhold,
                clients=clients, passive=passive, active=active, admin=admin, mark=mark, badops=badops, outcomes=outcomes)


def cfg_text(c, gen=True, invariants=(), properties=(), constraint=None, view="GenView"):
    b = lambda x: "TRUE" if x else "FALSE"
    t = """CONSTANTS
  N = %d
  N0 = %d
  Strategies = {%s}
  Weight <- %s
  Win = %d
  Thr = %d
  MaxHold = %d
  Clients = {%s}
  HashOf <- Hash2
  PassiveOn = %s
  ActiveOn = %s
  AdminOn = %s
  MarkOn = %s
  BadOpsOn = %s
  Outcomes = {%s}
""" % (c["N"], c["N0"], ", ".join('"%s"' % s for s in c["strategies"]), c["weight"], c["win"], c["thr"],
       c["maxhold"], ", ".join(str(x) for x in c["clients"]), b(c["passive"]), b(c["active"]), b(c["admin"]),
       b(c["mark"]), b(c.get("badops", False)), ", ".join('"%s"' % o for o in c["outcomes"]))
    if gen:
        t += "INIT MCInit\nNEXT GenNext\nVIEW %s\nINVARIANTS EmitInit\nACTION_CONSTRAINT Emit\n" % view
    else:
        t += "INIT MCInit\nNEXT MCNext\nVIEW View\n"
        if constraint:
            t += "CONSTRAINT %s\n" % constraint
        if invariants:
            t += "INVARIANTS " + " ".join(invariants) + "\n"
    return t


def mcfg_text(c, invariants=("TypeOK", "MirrorSafe"),
              properties=("DispatchOutsideWindow", "NoSpurious503", "LCMin", "PassiveOnlyAtThreshold")):
    t = cfg_text(c, gen=False).split("INIT MCInit")[0]
    t += "INIT Init\nNEXT Next\nVIEW MView\nINVARIANTS %s\nPROPERTIES %s\n" % (" ".join(invariants), " ".join(properties))
    return t


def tlc_cfg(module, text, name, **kw):
    wd = vlib.scratch("tlc")
    with open(os.path.join(wd, name), "w") as fh:
        fh.write(text)
    return vlib.tlc(module, name, workdir=wd, **kw)


PLAN = {"ok": "ok", "fail": "s500", "abort": "abort", "hold": "hold", "cancel": "cancel"}


def act_to_step(a, rid):
    k = a["a"]
    if k == "req":
        return {"a": "req", "id": rid, "client": "10.0.0.%d" % a["c"], "plan": PLAN[a["o"]]}
    if k == "release":
        return {"a": "release", "b": "b%d" % a["b"]}
    if k == "mark":
        return {"a": "mark", "b": "b%d" % a["b"]}
    if k == "setprobe":
        return {"a": "setprobe", "b": "b%d" % a["b"], "r": a["r"]}
    if k == "tick":
        return {"a": "tick", "n": 1}
    if k == "add":
        return {"a": "admin", "op": "add", "name": "b%d" % a["b"], "addr": "http://b%d.backend.test:80" % a["b"], "w": a.get("w", 1)}
    if k == "remove":
        return {"a": "admin", "op": "remove", "name": "b%d" % a["b"]}
    if k == "strategy":
        return {"a": "admin", "op": "strategy", "s": a["s"]}
    if k == "add_dup":
        return {"a": "admin", "op": "add", "name": "b%d" % a["b"], "addr": "http://b%d.backend.test:80" % a["b"], "w": 1}
    if k == "add_badurl":
        return {"a": "admin", "op": "add", "name": "b%d" % a["b"], "addr": "http://[::1", "w": 1}
    if k == "strategy_unknown":
        return {"a": "admin", "op": "strategy", "s": "fastest"}
    if k == "remove_absent":
        return {"a": "admin", "op": "remove", "name": "b%d" % a["b"]}
    raise vlib.FrameworkError("unknown model action %r" % (a,))


def scripts_from(r, prefix, weights=None, max_len=300, snap=False):
    ws, stats = vlib.walks(r, max_len=max_len)
    scripts = []
    for j, w in enumerate(ws):
        steps = []
        rid = 0
        for a in w["acts"]:
            rid += 1
            st = act_to_step(a, rid)
            if st["a"] == "admin" and st["op"] == "add" and weights:
                st["w"] = weights[a["b"] - 1]
            steps.append(st)
        if snap:
            steps.append({"a": "snap", "s": "end"})
        scripts.append({"id": "%s-%d-%d" % (prefix, w["init"], j), "cfg": w["cf"], "steps": steps})
    return scripts, stats["transitions"]


def replay(binp, scripts, sd, name, timeout=900):
    return vlib.run_chunked(binp, scripts, sd, name, chunk=300, timeout=timeout)


KEEP = {
    "cfg": ("ev", "id", "cfg"), "tick": ("ev", "n"), "req": ("ev", "id", "client", "plan"),
    "dispatch": ("ev", "id", "b"), "reply": ("ev", "id", "status", "kind", "h"),
    "mark": ("ev", "b"), "probe": ("ev", "b", "r"),
    "admin": ("ev", "op", "name", "w", "s", "status", "pre", "items", "addr"),
    "snap": ("ev", "total", "ok", "failed", "limited", "backends", "health", "list"),
    "held": ("ev", "id"), "stuck": ("ev", "id", "at"), "drift": ("ev",), "skip": ("ev",),
    "setprobe": ("ev", "b", "r"), "setmode": ("ev",), "stopped": ("ev",),
}


def project(trace_path, out_path):
    """Drop the fields PoolObs does not read (pure projection, no rewriting)."""
    n = 0
    drift = 0
    with open(trace_path) as fi, open(out_path, "w") as fo:
        for line in fi:
            e = json.loads(line)
            k = KEEP.get(e["ev"])
            if k is None:
                e = {"ev": e["ev"]}
            else:
                e = {x: e[x] for x in k if x in e}
            if e["ev"] == "admin":
                # the address itself is not judged, only whether it is one that cannot parse
                e["bad"] = str(e.pop("addr", "")).startswith("http://[")
            if e["ev"] == "cfg":
                c = e["cfg"]
                e["cfg"] = {"strategy": c["strategy"], "backends": c["backends"],
                            "passive": c["passive"], "active": c["active"],
                            "guards": bool((c.get("cb") or {}).get("on") or (c.get("rl") or {}).get("on"))}
            if e["ev"] == "drift":
                drift += 1
            fo.write(json.dumps(e, separators=(",", ":")) + "\n")
            n += 1
    return n, drift


_idx = {}


def segment(trace_path, seg_id):
    idx = _idx.get(trace_path)
    if idx is None:
        idx = {}
        cur = None
        with open(trace_path) as fh:
            for line in fh:
                if line.startswith('{"cfg"') or '"ev":"cfg"' in line:
                    cur = json.loads(line).get("id")
                    idx[cur] = []
                if cur is not None:
                    idx[cur].append(line)
        _idx[trace_path] = idx
    return [json.loads(x) for x in idx.get(seg_id, [])]


def judge(chk, trace_path, scripts, props, sd, name, extra_sig=None, clauses=None):
    """Run PoolObs over the recorded trace; violations of properties in `props`
    (set of ids) belong to this check."""
    proj = os.path.join(sd, name + ".proj.ndjson")
    n, drift = project(trace_path, proj)
    chk.cov["drift"] += drift
    viols, r = vlib.observe("ObsPoolTrace", "ObsPoolTrace.cfg", proj)
    chk.add_tlc("P:PoolObs over " + name, r)
    by_id = {s["id"]: s for s in scripts}
    cnt = 0
    for v in viols:
        for vv in v["v"]:
            if vv["prop"] not in props and not (clauses and vv["clause"] in clauses):
                continue
            sc = by_id.get(v["seg"], {})
            cfg = sc.get("cfg", {})
            sig = {"clause": vv["clause"], "strategy": cfg.get("strategy"), "info": vv["info"],
                   "active": cfg.get("active", {}).get("on"), "passive": cfg.get("passive", {}).get("on")}
            if extra_sig:
                sig.update(extra_sig)
            if vlib.match_known(chk.pid, sig):
                chk.violation(sig, [])
            else:
                chk.violation(sig, [{"script": sc, "line": v["line"]}] + segment(trace_path, v["seg"]),
                              name="%s-%s.ndjson" % (vv["clause"], v["seg"]))
            cnt += 1
    return cnt


def conformance(chk, sd, name, c):
    """code -> M: the recorded replay of plan `name` validated against Pool.tla itself (spec/TracePool.tla, with the
    plan's constants): selections, listings and every state change must be the model's.  Divergence is reported as
    MODEL-DRIFT and counted, never a verdict."""
    proj = os.path.join(sd, name + ".proj.ndjson")
    text = cfg_text(c, gen=False).split("INIT MCInit")[0]
    # MaxHold only bounds the generator's state space; the code has no such limit (and under the hash strategies
    # the real hash may put a held exchange on a backend the abstract hash would not have chosen)
    import re
    text = re.sub(r"MaxHold = \d+", "MaxHold = 99", text)
    text += "INIT TraceInit\nNEXT TraceNext\nINVARIANT Report\nPOSTCONDITION Consumed\nCHECK_DEADLOCK FALSE\n"
    wd = vlib.scratch("tlc")
    with open(os.path.join(wd, "trace.cfg"), "w") as fh:
        fh.write(text)
    r = vlib.tlc("TracePool", "trace.cfg", workdir=wd, workers=1, timeout=1800, env={"TRACE_FILE": proj}, deadlock=False)
    if r.rc != 0:
        raise vlib.FrameworkError("TracePool did not consume the trace of %s (rc=%d):\n%s" % (name, r.rc, r.out[-2500:]))
    chk.add_tlc("M-conformance:TracePool over " + name, r)
    div = r.printed("MDIV")
    m = chk.cov.setdefault("m_conformance", {"trace_lines": 0, "diverged_segments": 0, "first": []})
    m["trace_lines"] += r.distinct - 1
    m["diverged_segments"] += len(div)
    if len(m["first"]) < 3:
        m["first"] += div[:3 - len(m["first"])]
    if div:
        vlib.log("MODEL-DRIFT (not a verdict): %d replayed segments of plan %s take a step Pool.tla cannot explain, first: %s"
                 % (len(div), name, json.dumps(div[0])[:600]))
    return div


def run_check(pid, tier, props, plan_list, rule=None, snap=False, extra=None, clauses=None, alias=(), guards=(), samehost=()):
    chk = vlib.Check(pid, tier)
    sd = vlib.scratch(pid.lower())
    binp = build_lbsim(sd)
    total_tr = 0
    for name, c in plan_list:
        # M alone, exhaustive: state-based safety clauses
        r = tlc_cfg("MCPoolM", mcfg_text(c), "m.cfg", workers=vlib.NCPU, timeout=1500)
        chk.add_tlc("M exhaustive [%s]" % name, r)
        if r.rc != 0:
            chk.notes.append("MODEL-CEX in %s" % name)
            vlib.log("MODEL-CEX (not a verdict) in M config " + name)
        # every transition of M replayed on the real balancer
        g = tlc_cfg("MCPool", cfg_text(c), "gen.cfg", workers=8, timeout=1500)
        scripts, ntr = scripts_from(g, name, snap=snap)
        total_tr += ntr
        vlib.log("  plan %s: %d model transitions, %d walks, %d steps (M check %.1fs, gen %.1fs)" % (name, ntr, len(scripts), sum(len(s["steps"]) for s in scripts), r.wall, g.wall))
        tp = replay(binp, scripts, sd, name)
        chk.cov["traces_validated_against_impl"] += len(scripts)
        for s in scripts:
            chk.count_case([s["cfg"]["strategy"], len(s["steps"]), s["id"]])
        import time as _t
        _t0 = _t.time()
        judge(chk, tp, scripts, set(props), sd, name, clauses=clauses)
        vlib.log("    replay+judge %.1fs" % (_t.time() - _t0))
        conformance(chk, sd, name, c)
        if name in alias:
            # the same walks with every added backend given the address of b1: names, not addresses, identify backends
            import copy
            sc2 = copy.deepcopy(scripts)
            for s in sc2:
                s["id"] = "alias-" + s["id"]
                for st in s["steps"]:
                    if st["a"] == "admin" and st["op"] == "add" and not st["addr"].startswith("http://["):
                        st["addr"] = "http://b1.backend.test:80"
            tp2 = replay(binp, sc2, sd, "alias-" + name)
            chk.cov["traces_validated_against_impl"] += len(sc2)
            for s in sc2:
                chk.count_case([s["cfg"]["strategy"], len(s["steps"]), s["id"]])
            judge(chk, tp2, sc2, set(props), sd, "alias-" + name, clauses=clauses)
        if name in samehost:
            # the same walks with every backend on ONE host name, told apart by the port only (docker-style
            # host:8001, host:8002): whatever is kept per backend must not be keyed by the host
            import copy
            sc4 = copy.deepcopy(scripts)
            for s in sc4:
                s["id"] = "samehost-" + s["id"]
                s["cfg"]["samehost"] = True
                for st in s["steps"]:
                    if st["a"] == "admin" and st["op"] == "add" and not st["addr"].startswith("http://["):
                        st["addr"] = "http://backend.test:%d" % (8000 + int(st["name"][1:]))
            tp4 = replay(binp, sc4, sd, "samehost-" + name)
            chk.cov["traces_validated_against_impl"] += len(sc4)
            for s in sc4:
                chk.count_case([s["cfg"]["strategy"], len(s["steps"]), s["id"]])
            judge(chk, tp4, sc4, set(props), sd, "samehost-" + name, clauses=clauses)
        if name in guards:
            # the same walks with the optional guards switched on (circuit breaker: 2 failures open it for one
            # tick; rate limiter: 3 tokens, one more per second): requests they turn away are not dispatched,
            # everything the observer claims about the others is unchanged
            import copy
            sc3 = copy.deepcopy(scripts)
            for s in sc3:
                s["id"] = "guards-" + s["id"]
                s["cfg"]["cb"] = {"on": True, "ft": 2, "st": 1, "mr": 1, "iv": 2, "to": 1}
                s["cfg"]["rl"] = {"on": True, "max": 3, "refill": 1}
            tp3 = replay(binp, sc3, sd, "guards-" + name)
            chk.cov["traces_validated_against_impl"] += len(sc3)
            for s in sc3:
                chk.count_case([s["cfg"]["strategy"], len(s["steps"]), s["id"]])
            judge(chk, tp3, sc3, set(props), sd, "guards-" + name, clauses=clauses)
        if scripts:
            chk.sample({"plan": name, "script": scripts[0]["id"], "strategy": scripts[0]["cfg"]["strategy"],
                        "steps": scripts[0]["steps"][:10], "events": segment(tp, scripts[0]["id"])[1:9]}, limit=6)
    if extra:
        extra(chk, sd, binp)
    chk.cov["replayed_model_transitions"] = total_tr
    chk.cov["exhaustive"] = True
    chk.cov["rule"] = rule or ("every transition of the TLA+ pool model (strategy x ejected subset x rotation x in-flight vector x "
                       "window age x passive count) executed on the real LoadBalancer by covering walks; one case = one walk")
    chk.assumptions += ["scripted RoundTrippers stand in for backends; one tick = 2 s virtual, windows 2k+1 s",
                        "the admin listing (/v1/backends) is consulted only where the statement leaves a choice"]
    return chk.finish()
