"""C02 failover: only healthy backends are used; 503 only when none is healthy."""
import vlib, pool_common as pc


def plans(tier):
    S = pc.STRATS
    if tier == "quick":
        return [
            ("passive", pc.consts(S, win=1, thr=2, outcomes=("ok", "fail"))),
            ("mark", pc.consts(S, win=1, passive=False, mark=True, outcomes=("ok",))),
            ("hold-lc", pc.consts(["least_connections", "ip_hash"], win=1, passive=False, mark=True, maxhold=1, outcomes=("ok", "hold"))),
            ("active", pc.consts(S, win=1, passive=False, active=True, outcomes=("ok",))),
        ]
    return [
        ("passive4", pc.consts(S, N=4, N0=4, weight="W2101", win=1, thr=2, outcomes=("ok", "fail"))),
        ("passive-w2", pc.consts(S, win=2, thr=3, outcomes=("ok", "fail"))),
        ("mark4", pc.consts(S, N=4, N0=4, weight="W2101", win=1, passive=False, mark=True, outcomes=("ok",))),
        ("hold", pc.consts(S, win=1, passive=False, mark=True, maxhold=1, outcomes=("ok", "hold"))),
        ("active", pc.consts(S, win=2, passive=True, thr=2, active=True, outcomes=("ok", "fail"))),
        ("admin", pc.consts(S, N=4, N0=2, weight="W2101", win=1, passive=False, mark=True, admin=True, outcomes=("ok",))),
    ]


def run(tier, pid="C02", props=("C02",)):
    chk = vlib.Check(pid, tier)
    sd = vlib.scratch(pid.lower())
    binp = pc.build_lbsim(sd)
    total_tr = 0
    for name, c in plans(tier):
        # M alone, exhaustive: state-based safety clauses
        r = pc.tlc_cfg("MCPoolM", pc.mcfg_text(c), "m.cfg", workers=vlib.NCPU, timeout=1500)
        chk.add_tlc("M exhaustive [%s]" % name, r)
        if r.rc != 0:
            chk.notes.append("MODEL-CEX in %s" % name)
            vlib.log("MODEL-CEX (not a verdict) in M config " + name)
        # every transition of M replayed on the real balancer
        g = pc.tlc_cfg("MCPool", pc.cfg_text(c), "gen.cfg", workers=1, timeout=1500)
        scripts, ntr = pc.scripts_from(g, name)
        total_tr += ntr
        tp = pc.replay(binp, scripts, sd, name)
        chk.cov["traces_validated_against_impl"] += len(scripts)
        for s in scripts:
            chk.count_case([s["cfg"]["strategy"], len(s["steps"]), s["id"]])
        pc.judge(chk, tp, scripts, set(props), sd, name)
        if scripts:
            chk.sample({"plan": name, "script": scripts[0]["id"], "strategy": scripts[0]["cfg"]["strategy"],
                        "steps": scripts[0]["steps"][:10], "events": pc.segment(tp, scripts[0]["id"])[1:9]}, limit=6)
    chk.cov["replayed_model_transitions"] = total_tr
    chk.cov["exhaustive"] = True
    chk.cov["rule"] = ("every transition of the TLA+ pool model (strategy x ejected subset x rotation x in-flight vector x "
                       "window age x passive count) executed on the real LoadBalancer by covering walks; one case = one walk")
    chk.assumptions += ["scripted RoundTrippers stand in for backends; one tick = 2 s virtual, windows 2k+1 s",
                        "the admin listing (/v1/backends) is consulted only where the statement leaves a choice"]
    return chk.finish()
