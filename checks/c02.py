"""C02 failover: only healthy backends are used; 503 only when none is healthy."""
import vlib, pool_common as pc


def plans(tier):
    S = pc.STRATS
    if tier == "quick":
        return [
            ("passive", pc.consts(S, win=1, thr=2, outcomes=("ok", "fail"))),
            ("mark", pc.consts(S, win=1, passive=False, mark=True, outcomes=("ok",))),
            ("hold-lc", pc.consts(["least_connections", "ip_hash"], win=1, passive=False, mark=True, maxhold=1, outcomes=("ok", "hold"))),
            ("active", pc.consts(S, win=1, passive=False, active=True, outcomes=("ok",))),
            ("admin3", pc.consts(["round_robin"], N=3, N0=3, weight="W111", win=1, passive=False, mark=True, admin=True, clients=(1,), outcomes=("ok",))),
        ]
    return [
        ("passive4", pc.consts(S, N=4, N0=4, weight="W2101", win=1, thr=2, outcomes=("ok", "fail"))),
        ("passive-w2", pc.consts(S, win=2, thr=3, outcomes=("ok", "fail"))),
        ("mark4", pc.consts(S, N=4, N0=4, weight="W2101", win=1, passive=False, mark=True, outcomes=("ok",))),
        ("hold", pc.consts(S, win=1, passive=False, mark=True, maxhold=1, outcomes=("ok", "hold"))),
        ("active", pc.consts(S, win=1, passive=True, thr=2, active=True, outcomes=("ok", "fail"))),
        # one strategy per plan: with set_strategy between three strategies the same constants give 2.9 M transitions
        ("admin3", pc.consts(["round_robin"], N=3, N0=3, weight="W111", win=1, passive=False, mark=True, admin=True, clients=(1,), outcomes=("ok",))),
        ("admin3-wrr", pc.consts(["weighted_round_robin"], N=3, N0=3, weight="W111", win=1, passive=False, mark=True, admin=True, clients=(1,), outcomes=("ok",))),
        ("admin", pc.consts(["round_robin", "least_connections", "ip_hash"], N=3, N0=2, weight="W321", win=1, passive=False, mark=True, admin=True, clients=(1,), outcomes=("ok",))),
    ]


def run(tier):
    return pc.run_check("C02", tier, ("C02",), plans(tier), guards={"passive"})
