"""C13 accounting: counters conserve requests; in-flight gauges return to zero."""
import vlib, pool_common as pc


def plans(tier):
    S = pc.STRATS
    if tier == "quick":
        return [
            ("mix", pc.consts(["round_robin"], N=2, N0=2, weight="W111", win=1, thr=2, maxhold=1, outcomes=("ok", "fail", "abort", "cancel", "hold"))),
            ("mix-lc", pc.consts(["least_connections", "weighted_round_robin"], N=2, N0=2, weight="W111", win=1, thr=2, maxhold=1, outcomes=("ok", "abort", "hold"))),
            ("all503", pc.consts(S, N=2, N0=2, weight="W111", win=2, thr=1, outcomes=("ok", "fail", "abort", "cancel"))),
        ]
    return [
        ("mix", pc.consts(S, win=1, thr=2, maxhold=1, outcomes=("ok", "fail", "abort", "cancel", "hold"))),
        ("all503", pc.consts(S, N=2, N0=2, weight="W111", win=2, thr=1, maxhold=1, outcomes=("ok", "fail", "abort", "hold"))),
    ]


def gauge_schedules(chk, sd, binp):
    """all interleavings of two requests through the gauge protocol (increment / publish / decrement / publish)"""
    import health_race
    health_race.run(chk, sd, ["G"], {"C13"})


def feature_paths(chk, sd, binp):
    """breaker-rejected, breaker-counted (5xx / refused / aborted through the breaker) and rate-limited requests:
    the sequential breaker model's walks become client requests against a balancer with breaker and limiter
    enabled; the accounting identity is evaluated on a snapshot at the end of every walk"""
    import breaker_common as bc
    r = bc.tlc_with_cfg("MCBreaker", bc.gen_cfg_text([1], "CfgSys", False), "gen.cfg", workers=8, timeout=900)
    ws, stats = vlib.walks(r, max_len=120)
    scripts = []
    for variant, errplan, rl in (("5xx", "s500", False), ("refused", "refuse", False), ("limited", "s500", True),
                                 ("overlap", "s500", False)):
        for j, w in enumerate(ws):
            cf = w["cf"]
            steps, rid = [], 0
            for a in w["acts"]:
                if a["a"] == "call":
                    rid += 1
                    steps.append({"a": "req", "id": rid, "client": "10.0.0.%d" % (1 + rid % 2), "plan": {"ok": "ok", "err": errplan, "panic": "abort"}[a["o"]]})
                elif a["a"] == "tick":
                    steps.append({"a": "tick", "n": 1})
            if variant == "overlap":
                # every model call is held inside its backend exchange while a second client arrives:
                # in the half-open state the second one is what the breaker turns away (429)
                steps, rid = [], 0
                for a in w["acts"]:
                    if a["a"] == "call":
                        rid += 2
                        out = {"ok": "ok", "err": errplan, "panic": "abort"}[a["o"]]
                        steps += [{"a": "req", "id": rid - 1, "client": "10.0.0.1", "plan": "hold"},
                                  {"a": "req", "id": rid, "client": "10.0.0.2", "plan": out},
                                  {"a": "release", "id": rid - 1, "plan": out}]
                    elif a["a"] == "tick":
                        steps.append({"a": "tick", "n": 1})
            steps.append({"a": "snap", "s": "end"})
            cfg = {"strategy": "round_robin", "backends": [{"name": "b1", "w": 1}, {"name": "b2", "w": 1}],
                   "passive": {"on": False, "thr": 1, "win": 1}, "active": {"on": False, "iv": 1},
                   "cb": {"on": True, "ft": cf["ft"], "st": cf["st"], "mr": cf["mr"], "iv": cf["iv"], "to": cf["to"]}}
            if rl:
                cfg["rl"] = {"on": True, "max": 3, "refill": 3600}
            scripts.append({"id": "feat-%s-%d-%d" % (variant, w["init"], j), "cfg": cfg, "steps": steps})
    tp = pc.replay(binp, scripts, sd, "feat")
    chk.cov["traces_validated_against_impl"] += len(scripts)
    for s in scripts:
        chk.count_case([s["id"]])
    pc.judge(chk, tp, scripts, {"C13"}, sd, "feat")


def removal_paths(chk, sd, binp):
    """per-backend totals "equal the number of requests each backend was actually sent" also for a backend that is
    removed while one of its exchanges is still in flight (the pool model's generator never does that): some completed
    traffic, one held exchange per backend, removal of b1, release, snapshot; then the same with b1 added again"""
    scripts = []
    for strat in ("round_robin", "least_connections", "weighted_round_robin"):
        for readd in (False, True):
            for pre in (2, 4):
                steps, rid = [], 0
                for _ in range(pre):
                    rid += 1
                    steps.append({"a": "req", "id": rid, "client": "10.0.0.1", "plan": "ok"})
                h1, h2 = rid + 1, rid + 2
                steps += [{"a": "req", "id": h1, "client": "10.0.0.1", "plan": "hold"}, {"a": "req", "id": h2, "client": "10.0.0.2", "plan": "hold"},
                          {"a": "admin", "op": "remove", "name": "b1"}]
                if readd:
                    steps.append({"a": "admin", "op": "add", "name": "b1", "addr": "http://b1.backend.test:80", "w": 1})
                steps += [{"a": "release", "id": h1, "plan": "ok"}, {"a": "release", "id": h2, "plan": "ok"}, {"a": "snap", "s": "end"}]
                scripts.append({"id": "rm-%s-%d-%d" % (strat, int(readd), pre),
                                "cfg": {"strategy": strat, "backends": [{"name": "b1", "w": 1}, {"name": "b2", "w": 1}],
                                        "passive": {"on": False, "thr": 1, "win": 1}, "active": {"on": False, "iv": 1}},
                                "steps": steps})
    tp = pc.replay(binp, scripts, sd, "rm")
    chk.cov["traces_validated_against_impl"] += len(scripts)
    for s in scripts:
        chk.count_case([s["id"]])
    pc.judge(chk, tp, scripts, {"C13"}, sd, "rm")


def extra(chk, sd, binp):
    gauge_schedules(chk, sd, binp)
    feature_paths(chk, sd, binp)
    removal_paths(chk, sd, binp)
    import dist_common
    dist_common.run(chk, sd, chk.tier, ["metconc"], {"C13"})
    # the composed request path (limiter ; breaker ; selection ; proxy ; counting): spec/System.tla
    import system_common
    system_common.run(chk, sd, binp, {"C13"})


def run(tier):
    return pc.run_check("C13", tier, ("C13",), plans(tier), snap=True, extra=extra, guards={"mix"})
