"""C13 accounting: counters conserve requests; in-flight gauges return to zero."""
import vlib, pool_common as pc


def plans(tier):
    S = pc.STRATS
    if tier == "quick":
        return [
            ("mix", pc.consts(["round_robin"], N=2, N0=2, weight="W111", win=1, thr=2, maxhold=1, outcomes=("ok", "fail", "abort", "cancel", "hold"))),
            ("mix-lc", pc.consts(["least_connections", "weighted_round_robin"], N=2, N0=2, weight="W111", win=1, thr=2, maxhold=1, outcomes=("ok", "abort", "hold"))),
            ("all503", pc.consts(S, N=2, N0=2, weight="W111", win=2, thr=1, outcomes=("ok", "fail", "abort", "cancel"))),
        ]
    return [
        ("mix", pc.consts(S, win=1, thr=2, maxhold=1, outcomes=("ok", "fail", "abort", "cancel", "hold"))),
        ("all503", pc.consts(S, N=2, N0=2, weight="W111", win=2, thr=1, maxhold=1, outcomes=("ok", "fail", "abort", "hold"))),
    ]


def gauge_schedules(chk, sd, binp):
    """all interleavings of two requests through the gauge protocol (increment / publish / decrement / publish)"""
    import health_race
    health_race.run(chk, sd, ["G"], {"C13"})


def run(tier):
    return pc.run_check("C13", tier, ("C13",), plans(tier), snap=True, extra=gauge_schedules)
