"""C18 configuration loading: rejects exactly the invalid, accepts all documented forms."""
import os, re, glob
import vlib, cases

BASE = """server:
  port: 18080
backends:
  - name: "s1"
    address: "http://127.0.0.1:18081"
load_balancer:
  strategy: "round_robin"
"""
TOPKEYS = {"server", "backends", "load_balancer", "health_checks", "rate_limit", "circuit_breaker", "metrics",
           "admin_api", "logging", "plugins"}


def doc_cases(sd):
    """shipped sample files verbatim; every YAML block of README/docs that is a Helios configuration
    (complete: verbatim; partial: its top-level sections replace those of a minimal base config)"""
    import yaml
    res = []
    for f in ("helios.yaml", "helios.docker.yaml"):
        res.append({"kind": "file", "path": os.path.join(vlib.REPO, f), "what": f})
    docs = [os.path.join(vlib.REPO, "README.md")] + sorted(glob.glob(os.path.join(vlib.REPO, "docs", "*.md")))
    n = 0
    for d in docs:
        text = open(d, encoding="utf-8").read()
        for m in re.finditer(r"```ya?ml\n(.*?)```", text, re.S):
            block = m.group(1)
            block = "\n".join(l[3:] if l.startswith("   ") and not block.startswith(("server", "plugins", "admin", "#")) else l for l in block.split("\n"))
            try:
                y = yaml.safe_load(block)
            except Exception:
                continue
            if not isinstance(y, dict) or not set(y) <= TOPKEYS:
                continue
            n += 1
            p = os.path.join(sd, "doc-%d.yaml" % n)
            if "server" in y and "backends" in y:
                open(p, "w").write(block)
            else:
                base = yaml.safe_load(BASE)
                base.update(y)
                open(p, "w").write(yaml.safe_dump(base, sort_keys=False))
            line = text[:m.start()].count("\n") + 1
            res.append({"kind": "file", "path": p, "what": "%s:%d" % (os.path.relpath(d, vlib.REPO), line)})
    return res


def run(tier):
    chk = vlib.Check("C18", tier)
    sd = vlib.scratch("c18")
    binp = vlib.go_build("cfgsim", "internal/zz_verif/cfgsim", ["cfgsim/main.go"], sd)
    cs, r = cases.enumerate_cases("GenConfig", "GenConfigThorough.cfg" if tier == "thorough" else "GenConfigQuick.cfg")
    chk.add_tlc("configurations enumerated from spec/Config.tla (all variant pairs + binary product)", r)
    docs = doc_cases(sd)
    allc = docs + cs
    cp = os.path.join(sd, "cfg.cases.ndjson")
    tp = os.path.join(sd, "cfg.trace.ndjson")
    vlib.write_ndjson(cp, allc)
    # process level: the real binary, for the "proc" cases
    import subprocess
    hb = os.path.join(sd, "helios")
    env = dict(vlib.GOENV, GOCACHE=os.environ.get("GOCACHE", "/var/tmp/helios-verif-gocache"))
    p = subprocess.run(["go", "build", "-o", hb, "./cmd/helios"], cwd=vlib.REPO, env=env, stdout=subprocess.PIPE, stderr=subprocess.STDOUT, text=True)
    if p.returncode != 0:
        raise vlib.FrameworkError("cannot build cmd/helios: " + p.stdout[-1500:])
    vlib.run([binp, cp, tp], timeout=1500, cwd=vlib.REPO, env=dict(os.environ, HELIOS_BIN=hb))
    if not os.path.exists(tp + ".ok"):
        raise vlib.FrameworkError("cfgsim did not finish")
    chk.cov["traces_validated_against_impl"] = len(allc)
    chk.cov["documented_samples"] = [d["what"] for d in docs]
    for c in allc:
        chk.count_case(c)

    def sig(clause, e):
        c = e["c"]
        if c["kind"] == "file":
            return {"clause": clause, "what": c["what"], "detail": e["o"]["detail"][:160]}
        if c["kind"] == "proc":
            return {"clause": clause, "kind": "process", "nondefault": {k: v for k, v in c["cfg"].items() if v not in ("8080", "off", "none", "one", "round_robin", "info", "json")},
                    "proc": e["o"].get("proc"), "detail": e["o"]["detail"][:160]}
        nd = {k: v for k, v in c["cfg"].items() if v not in ("8080", "off", "none", "one", "round_robin", "info", "json")}
        return {"clause": clause, "nondefault": nd, "detail": e["o"]["detail"][:160]}
    cases.judge(chk, "ObsConfigTrace", "ObsConfigTrace.cfg", tp, sig, "cfg")
    chk.sample({"case": cs[0]})
    chk.sample({"case": docs[0]})
    chk.cov["exhaustive"] = True
    chk.cov["rule"] = "abstract configurations enumerated by TLC, rendered to YAML, loaded by the real LoadConfig and started; plus shipped samples and documentation blocks"
    chk.assumptions += ["variant tables in spec/Config.tla and harness/cfgsim transcribe the documented constraints",
                        "start = logging.Init + NewLoadBalancer + BuildChain (listeners are not opened)"]
    return chk.finish()
