"""C01 end-to-end proxy transparency (requests, responses, streaming)."""
import os
import vlib, cases


def build(sd):
    d = os.path.join(vlib.HARNESS, "proxysim")
    files = ["proxysim/" + f for f in sorted(os.listdir(d)) if f.endswith(".go")]
    return vlib.go_build("proxysim", "internal/zz_verif/proxysim", files, sd,
                         extra_overlay={"internal/loadbalancer/zz_verif_export.go": "accessors/lb_verif_export.go"})


def run(tier):
    chk = vlib.Check("C01", tier)
    sd = vlib.scratch("c01")
    binp = build(sd)
    cs, r = cases.enumerate_cases("GenRelay", "GenRelay.cfg")
    chk.add_tlc("pairwise-covering exchanges over 13 dimensions (spec/Relay.tla)", r)
    rounds = 4 if tier == "thorough" else 1
    total = 0
    for k in range(rounds):
        tp = cases.execute([binp, "relay"], cs, sd, "relay%d" % k, timeout=1800, extra_args=[str(vlib.seed() + 1000 * k)])
        total += len(cs)

        def sig(clause, e):
            c = e["c"]
            o = e["o"]
            return {"clause": clause, "method": c[0], "path": c[1], "reqhdr": c[3], "reqbody": c[4], "status": c[5],
                    "resphdr": c[6], "respbody": c[7], "base": c[8], "ids": c[10], "plugin": c[11], "features": c[12],
                    "via_err": o["via"].get("err"), "direct_err": o["direct"].get("err")}
        cases.judge(chk, "ObsRelayTrace", "ObsRelayTrace.cfg", tp, sig, "relay%d" % k)
    # once more through the real cmd/helios binary (its own buildHandler / createHTTPServer), one process per configuration
    import subprocess
    hb = os.path.join(sd, "helios")
    genv = dict(vlib.GOENV, GOCACHE=os.environ.get("GOCACHE", "/var/tmp/helios-verif-gocache"))
    p = subprocess.run(["go", "build", "-o", hb, "./cmd/helios"], cwd=vlib.REPO, env=genv, stdout=subprocess.PIPE, stderr=subprocess.STDOUT, text=True)
    if p.returncode != 0:
        raise vlib.FrameworkError("cannot build cmd/helios: " + p.stdout[-1500:])
    tp = cases.execute([binp, "relay"], cs, sd, "relayproc", timeout=1800, extra_args=[str(vlib.seed() + 77)], env={"PROXYSIM_BIN": hb})
    total += len(cs)
    chk.cov["exchanges_through_real_binary"] = len(cs)

    def sigp(clause, e):
        s = sig(clause, e)
        s["via"] = "process"
        return s
    cases.judge(chk, "ObsRelayTrace", "ObsRelayTrace.cfg", tp, sigp, "relayproc")
    chk.cov["traces_validated_against_impl"] = total
    for c in cs:
        chk.count_case(c)
    chk.sample({"case": cs[7]})
    chk.sample({"case": cs[900]})
    chk.cov["exhaustive"] = False
    chk.cov["rule"] = ("pairwise-covering set of abstract exchanges (every pair of values of every two dimensions); each is concretised with "
                       "seeded random bytes and performed through Helios and directly against the same backend over real sockets")
    chk.assumptions += ["HTTP/1.1 cleartext front end only", "bytes inside a class are sampled (seeded), TLC compares digests and header sets",
                        "Date and hop-by-hop headers are excluded from the comparison"]
    return chk.finish()
