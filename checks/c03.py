"""C03 fault containment: no backend/client fault can wedge or crash the proxy."""
import vlib, cases, c01


def run(tier):
    chk = vlib.Check("C03", tier)
    sd = vlib.scratch("c03")
    binp = c01.build(sd)
    cs, r = cases.enumerate_cases("GenFaults", "GenFaultsThorough.cfg" if tier == "thorough" else "GenFaultsQuick.cfg")
    chk.add_tlc("fault sequences x feature switches x strategies (spec/Faults.tla)", r)
    tp = cases.execute([binp, "fault"], cs, sd, "fault", timeout=3400, extra_args=[str(vlib.seed()), "48"])
    chk.cov["traces_validated_against_impl"] = len(cs)
    for c in cs:
        chk.count_case(c)

    def sig(clause, e):
        c = e["c"]
        return {"clause": clause, "faults": c["faults"], "stall": any(f.startswith("stall_body") for f in c["faults"]), "strategy": c["strategy"], "f": c["f"],
                "outcomes": [r.get("outcome") for r in e["o"].get("reqs", [])], "probe": e["o"].get("probe"), "second": e["o"].get("second")}
    cases.judge(chk, "ObsFaultsTrace", "ObsFaultsTrace.cfg", tp, sig, "fault")
    chk.sample({"case": cs[len(cs) // 2]})
    chk.cov["exhaustive"] = True
    chk.cov["rule"] = ("every fault sequence of length <= 2 over the 9-letter alphabet x feature switches x strategies, against a real "
                       "http.Server + LoadBalancer with raw-TCP misbehaving backends (backend_read 1 s, server write 3 s); then two plain probes")
    chk.assumptions += ["real time, loopback sockets; bound 5.5 s per faulted request", "'refuse' is an immediate reset of the accepted connection"]
    return chk.finish()
