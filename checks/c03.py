"""C03 fault containment: no backend/client fault can wedge or crash the proxy."""
import vlib, cases, c01


def run(tier):
    chk = vlib.Check("C03", tier)
    sd = vlib.scratch("c03")
    binp = c01.build(sd)
    cs, r = cases.enumerate_cases("GenFaults", "GenFaultsThorough.cfg" if tier == "thorough" else "GenFaultsQuick.cfg")
    chk.add_tlc("fault sequences x feature switches x strategies (spec/Faults.tla)", r)
    # cases with a dead backend under active checks run against the real process (a crash is an observation there,
    # not the end of the harness); everything else in-process, where gauges and listings can be read as well
    act = [c for c in cs if c["dead"] != "none"]
    cs = [c for c in cs if c["dead"] == "none"]
    tp = cases.execute([binp, "fault"], cs, sd, "fault", timeout=3400, extra_args=[str(vlib.seed()), "48"])
    import os, subprocess
    hb = os.path.join(sd, "helios")
    genv = dict(vlib.GOENV, GOCACHE=os.environ.get("GOCACHE", "/var/tmp/helios-verif-gocache"))
    p = subprocess.run(["go", "build", "-o", hb, "./cmd/helios"], cwd=vlib.REPO, env=genv, stdout=subprocess.PIPE, stderr=subprocess.STDOUT, text=True)
    if p.returncode != 0:
        raise vlib.FrameworkError("cannot build cmd/helios: " + p.stdout[-1500:])
    tpa = cases.execute([binp, "fault"], act, sd, "faultproc", timeout=1800, extra_args=[str(vlib.seed()), "16"], env={"PROXYSIM_BIN": hb})
    with open(tp, "a") as fo, open(tpa) as fi:
        fo.write(fi.read())
    chk.cov["process_level_cases"] = len(act)
    cs = cs + act
    chk.cov["traces_validated_against_impl"] = len(cs)
    for c in cs:
        chk.count_case(c)

    def sig(clause, e):
        c = e["c"]
        return {"clause": clause, "faults": c["faults"], "stall": any(f.startswith("stall_body") for f in c["faults"]), "strategy": c["strategy"], "f": c["f"], "dead": c["dead"],
                "outcomes": [r.get("outcome") for r in e["o"].get("reqs", [])], "probe": e["o"].get("probe"), "second": e["o"].get("second")}
    cases.judge(chk, "ObsFaultsTrace", "ObsFaultsTrace.cfg", tp, sig, "fault")
    chk.sample({"case": cs[len(cs) // 2]})
    chk.cov["exhaustive"] = True
    chk.cov["rule"] = ("every fault sequence of length <= 2 over the 9-letter alphabet x feature switches x strategies, against a real "
                       "http.Server + LoadBalancer with raw-TCP misbehaving backends (backend_read 1 s, server write 3 s); then two plain probes")
    chk.assumptions += ["real time, loopback sockets; bound 5.5 s per faulted request", "'refuse' is an immediate reset of the accepted connection"]
    return chk.finish()
