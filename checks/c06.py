"""C06 client affinity (ip_hash) and minimal remapping (ip_hash_consistent)."""
import vlib, pool_common as pc

H = ["ip_hash", "ip_hash_consistent"]


def plans(tier):
    if tier == "quick":
        return [
            ("aff", pc.consts(H, win=1, passive=False, mark=True, clients=(1, 2, 3), outcomes=("ok",))),
            ("append", pc.consts(H, N=4, N0=2, weight="W111", win=1, passive=False, mark=False, admin=True, clients=(1, 2, 3), outcomes=("ok",))),
        ]
    return [
        ("aff", pc.consts(H, N=4, N0=4, weight="W111", win=1, passive=True, thr=1, mark=True, clients=(1, 2, 3), outcomes=("ok", "fail"))),
        ("append", pc.consts(H, N=4, N0=2, weight="W111", win=1, passive=False, mark=False, admin=True, clients=(1, 2, 3), outcomes=("ok",))),
        ("append-eject", pc.consts(H, N=3, N0=2, weight="W111", win=1, passive=False, mark=True, admin=True, clients=(1, 2), outcomes=("ok",))),
    ]


def sweeps(chk, sd, binp):
    import dist_common
    dist_common.run(chk, sd, chk.tier, ['jump', 'addr', 'affconc'], {"C06"})


def run(tier):
    return pc.run_check("C06", tier, ("C06",), plans(tier), clauses={"DispatchToUnknown", "DispatchInWindow"}, extra=sweeps)
