"""C06 client affinity (ip_hash) and minimal remapping (ip_hash_consistent)."""
import vlib, pool_common as pc

H = ["ip_hash", "ip_hash_consistent"]


def plans(tier):
    if tier == "quick":
        return [
            ("aff", pc.consts(H, win=1, passive=False, mark=True, clients=(1, 2, 3), outcomes=("ok",))),
            ("append", pc.consts(H, N=4, N0=2, weight="W111", win=1, passive=False, mark=False, admin=True, clients=(1, 2, 3), outcomes=("ok",))),
        ]
    return [
        ("aff", pc.consts(H, N=4, N0=4, weight="W111", win=1, passive=True, thr=1, mark=True, clients=(1, 2, 3), outcomes=("ok", "fail"))),
        ("append", pc.consts(H, N=4, N0=2, weight="W111", win=1, passive=False, mark=False, admin=True, clients=(1, 2, 3), outcomes=("ok",))),
        ("append-eject", pc.consts(H, N=3, N0=2, weight="W111", win=1, passive=False, mark=True, admin=True, clients=(1, 2), outcomes=("ok",))),
    ]


def append_probes(chk, sd, binp):
    """minimal remapping quantifies over STATES: from every reachable state of a small pool model (backends ejected or
    not, windows running or elapsed) every client asks once, a backend is appended, every client asks again --
    a client may only have moved to the appended backend"""
    import graphs
    from collections import deque
    c = pc.consts(["ip_hash_consistent"], N=4, N0=3, weight="W111", win=1, passive=False, mark=True, admin=False,
                  clients=(1,), outcomes=("ok",))
    g = pc.tlc_cfg("MCPool", pc.cfg_text(c), "gen.cfg", workers=8, timeout=900)
    adj = graphs.build(g.printed("TR"))
    scripts = []
    clients = ["10.0.%d.%d" % (i // 200, 1 + i % 200) for i in range(24)]     # real addresses: the hash is the code's
    for i, ini in enumerate(g.printed("IN")):
        par = {ini["s"]: None}
        dq = deque([ini["s"]])
        order = []
        while dq:
            x = dq.popleft()
            order.append(x)
            for (k, a, t) in adj.get(x, []):
                if t not in par:
                    par[t] = (x, a)
                    dq.append(t)
        for j, x in enumerate(order):
            p = []
            y = x
            while par[y] is not None:
                y, a = par[y]
                p.append(a)
            p.reverse()
            steps, rid = [], 0
            for a in p:
                rid += 1
                steps.append(pc.act_to_step(a, rid))
            for rnd in (0, 1):
                for cl in clients:
                    rid += 1
                    steps.append({"a": "req", "id": rid, "client": cl, "plan": "ok"})
                if rnd == 0:
                    # the appended backend's NAME is arbitrary: also one that sorts before every configured name and
                    # one that sorts between two of them (b1 < b10 < b2)
                    nm = ("b4", "a0", "b10")[j % 3]
                    steps.append({"a": "admin", "op": "add", "name": nm, "addr": "http://%s.backend.test:80" % nm, "w": 1})
            scripts.append({"id": "probe-%d-%d" % (i, j), "cfg": ini["cf"], "steps": steps})
    tp = pc.replay(binp, scripts, sd, "probe")
    chk.cov["traces_validated_against_impl"] += len(scripts)
    chk.cov["append_probes_from_states"] = len(scripts)
    for s in scripts:
        chk.count_case([s["id"]])
    pc.judge(chk, tp, scripts, {"C06"}, sd, "probe", clauses={"DispatchToUnknown", "DispatchInWindow"})


def sweeps(chk, sd, binp):
    import dist_common
    dist_common.run(chk, sd, chk.tier, ['jump', 'addr', 'affconc'], {"C06"})
    append_probes(chk, sd, binp)


def run(tier):
    return pc.run_check("C06", tier, ("C06",), plans(tier), clauses={"DispatchToUnknown", "DispatchInWindow"}, extra=sweeps)
