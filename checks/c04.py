"""C04 health state machine: ejection threshold, unhealthy window, recovery."""
import vlib, pool_common as pc


def plans(tier):
    S = pc.STRATS
    if tier == "quick":
        return [
            ("thr1", pc.consts(S, win=1, thr=1, outcomes=("ok", "fail"))),
            ("thr2", pc.consts(S, win=1, thr=2, outcomes=("ok", "fail"))),
            ("active", pc.consts(["round_robin", "weighted_round_robin", "ip_hash"], win=1, passive=False, active=True, outcomes=("ok",))),
            ("active+passive", pc.consts(["round_robin", "ip_hash_consistent"], N=2, N0=2, weight="W111", win=1, thr=2, active=True, outcomes=("ok", "fail"))),
            ("readd", pc.consts(["round_robin"], N=2, N0=2, weight="W111", win=1, thr=2, passive=True, admin=True, clients=(1,), outcomes=("ok", "fail"))),
        ]
    return [
        ("thr1", pc.consts(S, win=2, thr=1, outcomes=("ok", "fail"))),
        ("thr2", pc.consts(S, win=2, thr=2, outcomes=("ok", "fail"))),
        ("thr3", pc.consts(S, win=1, thr=3, outcomes=("ok", "fail"))),
        ("thr4", pc.consts(["round_robin", "least_connections", "ip_hash"], N=2, N0=2, win=1, thr=4, outcomes=("ok", "fail"))),
        ("active", pc.consts(S, win=2, passive=False, active=True, mark=True, outcomes=("ok",))),
        ("active+passive", pc.consts(S, win=1, thr=2, active=True, outcomes=("ok", "fail"))),
        ("abort", pc.consts(S, win=1, thr=2, outcomes=("ok", "fail", "abort"))),
        ("readd", pc.consts(["round_robin", "ip_hash"], N=2, N0=2, weight="W111", win=1, thr=3, passive=True, admin=True, clients=(1,), outcomes=("ok", "fail"))),
    ]


def run(tier):
    return pc.run_check("C04", tier, ("C04",), plans(tier), clauses={"DispatchInWindow"}, extra=fine_grained, guards={"thr2"}, samehost={"thr2"})


def fine_grained(chk, sd, binp):
    """schedules of an expiry check racing a fresh ejection / a probe result: HealthRace.tla + gate replay"""
    import health_race
    health_race.run(chk, sd, ["A", "B", "C"], {"C04"})
    # unbounded complement (TLA+ proof system): FlagSafe / MirrorSafe of HealthRace.tla for any number of threads
    vlib.tlapm(chk, "HealthRaceProofs")
