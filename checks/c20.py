"""C20 WebSocket tunnelling and connection-pool invariants."""
import os
import vlib


def cfgtext(cfgset, gen, conns="{1, 2, 3}", backends="{1, 2}"):
    t = "CONSTANTS\n  Backends = %s\n  Conns = %s\n  CfgSet <- %s\nINIT MCInit\nNEXT MCNext\n" % (backends, conns, cfgset)
    if gen:
        t += "VIEW GenView\nINVARIANTS EmitInit\nACTION_CONSTRAINT Emit\n"
    else:
        t += "VIEW View\nINVARIANTS NoViolation IdleCapInv ExclusiveInv\n"
    return t


def tlc_cfg(text, name, **kw):
    wd = vlib.scratch("tlc")
    with open(os.path.join(wd, name), "w") as fh:
        fh.write(text)
    return vlib.tlc("MCWsPool", name, workdir=wd, **kw)


def pool_linearizability(chk, sd, tier):
    """concurrent clause: actors on one real pool in real parallel; TLC searches for a linearization (spec/LinPool.tla)"""
    import json, cases
    binp = vlib.go_build("poolconc", "internal/zz_verif/poolconc", ["poolconc/main.go"], sd,
                         extra_overlay={"internal/loadbalancer/zz_verif_export.go": "accessors/lb_verif_export.go"})
    cs, r = cases.enumerate_cases("GenLinPool", "GenLinPool.cfg", env={"TIER": tier})
    chk.add_tlc("concurrent pool cases (spec/LinPool.tla)", r)
    reps = 12 if tier == "thorough" else 10
    tp = cases.execute_chunked(binp, cs, sd, "linpool", chunk=6000, timeout=3000, extra_args=[str(reps)], par=3)
    st = json.load(open(tp + ".ok"))
    chk.cov["concurrent_histories_run"] = st["histories"]
    chk.cov["concurrent_histories_distinct"] = st["distinct"]
    chk.cov["traces_validated_against_impl"] += st["distinct"]

    def sig(clause, e):
        return {"clause": clause, "class": "concurrent", "regime": e["c"]["regime"], "maxidle": e["c"]["maxidle"],
                "actors": ["".join(a) for a in e["c"]["actors"]]}
    cases.judge(chk, "ObsLinPoolTrace", "ObsLinPoolTrace.cfg", tp, sig, "linpool", timeout=3000, parts=12)
    with open(tp) as fh:
        chk.sample({"concurrent_pool_history": json.loads(fh.readline())})


def run(tier):
    chk = vlib.Check("C20", tier)
    sd = vlib.scratch("c20")
    binp = vlib.go_build("poolsim", "internal/zz_verif/poolsim", ["poolsim/main.go"], sd, faketime=True)
    thorough = tier == "thorough"
    cfgset = "CfgAll" if thorough else "CfgQuick"
    r = tlc_cfg(cfgtext(cfgset, False), "mc.cfg", workers=vlib.NCPU, timeout=1800)
    chk.add_tlc("M|=P, all reachable states (%s, 2 backends, 3 connections)" % cfgset, r)
    if r.rc != 0:
        chk.notes.append("MODEL-CEX: " + ",".join(r.invariant_violated))
        vlib.log("MODEL-CEX (not a verdict): pool model violates " + ",".join(r.invariant_violated))
    g = tlc_cfg(cfgtext(cfgset, True, backends="{1, 2}"), "gen.cfg", workers=8, timeout=1800)
    ws, stats = vlib.walks(g, max_len=200)
    scripts = []
    for j, w in enumerate(ws):
        steps = [dict(a=a["a"], b=a.get("b", 0), c=a.get("c", 0)) for a in w["acts"]]
        scripts.append({"id": "pool-%d-%d" % (w["init"], j), "cf": w["cf"], "steps": steps})
    tp = vlib.run_chunked(binp, scripts, sd, "pool", chunk=300)
    chk.cov["traces_validated_against_impl"] += len(scripts)
    chk.cov["replayed_model_transitions"] = stats["transitions"]
    viols, pr = vlib.observe("ObsWsPoolTrace", "ObsWsPoolTrace.cfg", tp)
    chk.add_tlc("P:WsPoolObs over replay", pr)
    # code -> M: the same trace validated against WsPool.tla itself (every result must be the model's)
    mr = vlib.tlc("TraceWsPool", "TraceWsPool.cfg", workers=1, timeout=1800, env={"TRACE_FILE": tp}, deadlock=False)
    if mr.rc != 0:
        raise vlib.FrameworkError("TraceWsPool did not consume the trace (rc=%d):\n%s" % (mr.rc, mr.out[-2000:]))
    chk.add_tlc("M-conformance:TraceWsPool over replay", mr)
    div = mr.printed("MDIV")
    chk.cov["m_conformance"] = {"trace_lines": mr.distinct - 1, "diverged_segments": len(div), "first": div[:3]}
    if div:
        vlib.log("MODEL-DRIFT (not a verdict): %d replayed segments take a step WsPool.tla cannot explain, first: %s" % (len(div), str(div[0])[:500]))
    by_id = {s["id"]: s for s in scripts}
    for s in scripts:
        chk.count_case([s["cf"], s["id"]])
    ev = vlib.read_ndjson(tp)
    for v in viols:
        for vv in v["v"]:
            sc = by_id.get(v["seg"], {})
            sig = {"clause": vv["clause"], "info": vv["info"], "cf": sc.get("cf")}
            seg, on = [], False
            for e in ev:
                if e["ev"] == "cfg":
                    on = e["id"] == v["seg"]
                if on:
                    seg.append(e)
            chk.violation(sig, [{"script": sc, "line": v["line"]}] + seg, name="%s-%s.ndjson" % (vv["clause"], v["seg"]))
    if scripts:
        chk.sample({"script": scripts[0]["id"], "cf": scripts[0]["cf"], "steps": scripts[0]["steps"][:14], "events": ev[1:12]})
    import tunnel
    tunnel.run(chk, sd, tier)
    pool_linearizability(chk, sd, tier)
    chk.cov["exhaustive"] = True
    chk.cov["rule"] = "every transition of the TLA+ pool model (put/get/close/tick/cleanup/stats/shutdown, 1-2 backends, 3 connections, max_idle 0..3) replayed on the real WebSocketPool with fake net.Conns under virtual time"
    chk.assumptions += ["legal use only: callers put connections they hold, once", "1 tick = 10 s virtual; idle_timeout k ticks = 10k+2 s"]
    return chk.finish()
