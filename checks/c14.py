"""C14 size_limit plugin: bodies are bounded, everything within bounds is untouched."""
import vlib, cases


def run(tier):
    chk = vlib.Check("C14", tier)
    sd = vlib.scratch("c14")
    binp = vlib.go_build("wiresim", "internal/zz_verif/wiresim", ["wiresim/main.go"], sd)
    cs, r = cases.enumerate_cases("GenSizeLimit", "GenSizeLimitThorough.cfg" if tier == "thorough" else "GenSizeLimitQuick.cfg")
    chk.add_tlc("handler op sequences x limits x chain positions + request bodies, from spec/SizeLimit.tla", r)
    tp = cases.execute(binp, cs, sd, "size", timeout=1500)
    chk.cov["traces_validated_against_impl"] = len(cs)
    for c in cs:
        chk.count_case(c)

    def sig(clause, e):
        c = e["c"]
        s = {"clause": clause, "kind": c["kind"], "limit": c["limit"], "pos": c["pos"]}
        if c["kind"] == "resp":
            s["ops"] = ["%s%s" % (o["k"], o["s"] if o["k"] == "WH" else (o["n"] if o["k"] == "W" else "")) for o in c["ops"]]
        elif c["kind"] == "head":
            s["declared"], s["status"], s["method"] = c["declared"], c["status"], c.get("method", "HEAD")
        else:
            s["size"], s["framing"] = c["size"], c["framing"]
        s["observed"] = e["o"]
        return s
    cases.judge(chk, "ObsSizeLimitTrace", "ObsSizeLimitTrace.cfg", tp, sig, "size")
    chk.sample({"case": cs[len(cs) // 3]})
    chk.sample({"case": cs[-1]})
    chk.cov["exhaustive"] = True
    chk.cov["rule"] = "every well-formed handler operation sequence (WriteHeader/Write/Flush) up to the bound x limit x chain position, and request bodies around the limit in both framings, over a real keep-alive TCP connection"
    chk.assumptions += ["the scripted handler sits directly behind the real middleware chain (real http.Server, real TCP client)"]
    return chk.finish()
