"""numeric / concurrent sweeps (harness/distsim) judged by spec/DistObs.tla"""
import os, json
import vlib


def run(chk, sd, tier, whats, props):
    binp = vlib.go_build("distsim", "internal/zz_verif/distsim", ["distsim/main.go"], sd,
                         extra_overlay={"internal/loadbalancer/zz_verif_export.go": "accessors/lb_verif_export.go"})
    tp = os.path.join(sd, "dist.%s.ndjson" % "-".join(whats))
    vlib.run([binp, tp, tier, str(vlib.seed())] + list(whats), timeout=3000)
    n = sum(1 for _ in open(tp))
    chk.cov["traces_validated_against_impl"] += n
    chk.cov["sweep_records_" + "_".join(whats)] = n
    viols, r = vlib.observe("DistObs", "DistObs.cfg", tp, timeout=1800)
    chk.add_tlc("P:DistObs over %s" % ",".join(whats), r)
    lines = None
    for v in viols:
        for vv in v["v"]:
            if vv["prop"] not in props:
                continue
            if lines is None:
                lines = open(tp).readlines()
            e = json.loads(lines[v["line"] - 1])
            sig = {"clause": vv["clause"], "record": {k: e[k] for k in e if k not in ("picks", "seq")}}
            chk.violation(sig, [e], name="%s-%d.ndjson" % (vv["clause"], v["line"]))
    with open(tp) as fh:
        for i, line in enumerate(fh):
            e = json.loads(line)
            if e["kind"] == "jumpsummary":
                chk.cov["jump_hash_keys_swept"] = e["keys"]
                chk.cov["jump_hash_full_2^32"] = e["full"]
            if i < 2:
                chk.sample({"sweep_record": e})
