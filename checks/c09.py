"""C09 rate limiting: per-client token-bucket bound, isolation, refill."""
import os
import vlib


def cfgtext(clients, cfgset, gen):
    t = "CONSTANTS\n  Clients = {%s}\n  CfgSet <- %s\n  CA0 = 6\nINIT MCInit\nNEXT MCNext\n" % (
        ", ".join(str(c) for c in clients), cfgset)
    if gen:
        t += "VIEW GenView\nINVARIANTS EmitInit\nACTION_CONSTRAINT Emit\n"
    else:
        t += "VIEW View\nCONSTRAINT Bound\nINVARIANTS NoViolation TokensInRange\n"
    return t


def tlc_cfg(text, name, **kw):
    wd = vlib.scratch("tlc")
    with open(os.path.join(wd, name), "w") as fh:
        fh.write(text)
    return vlib.tlc("MCLimiter", name, workdir=wd, **kw)


def cleanup_race(chk, sd, binp):
    """"for any arrival pattern and any concurrency": Allow against the cleanup pass.  spec/LimiterRace.tla splits Allow
    (lookup, gate rl:lock, critical section) and the cleanup pass (gate rl:clean, critical section); TLC checks the
    burst / window clauses for every interleaving and emits every transition; the gate scheduler in limsim executes
    them on the real limiter (one parked caller, one parked cleanup pass, whole Allows in between)."""
    r = vlib.tlc("MCLimiterRace", "MCLimiterRaceFixed.cfg", workers=vlib.NCPU, timeout=900)
    chk.add_tlc("M|=P, all interleavings of Allow (2 steps) / cleanup (2 steps) / ticks, 4 configurations", r)
    if r.rc != 0:
        chk.notes.append("MODEL-CEX (LimiterRace): " + ",".join(r.invariant_violated))
        vlib.log("MODEL-CEX (not a verdict): LimiterRace violates " + ",".join(r.invariant_violated))
    g = vlib.tlc("MCLimiterRace", "GenLimiterRace.cfg", workers=8, timeout=900)
    ws, stats = vlib.walks(g, max_len=150)
    scripts = [{"id": "race-%d-%d" % (w["init"], j), "cf": w["cf"], "race": True, "steps": [{"a": a["a"]} for a in w["acts"]]}
               for j, w in enumerate(ws)]
    tp = vlib.run_chunked(binp, scripts, sd, "limrace", chunk=300)
    chk.cov["traces_validated_against_impl"] += len(scripts)
    chk.cov["replayed_transitions_cleanup_race"] = stats["transitions"]
    ev = vlib.read_ndjson(tp)
    chk.cov["drift"] += sum(1 for e in ev if e["ev"] == "drift")
    viols, pr = vlib.observe("ObsLimiterTrace", "ObsLimiterTrace.cfg", tp)
    chk.add_tlc("P:LimiterObs over gate-scheduled replay", pr)
    by_id = {s["id"]: s for s in scripts}
    for s in scripts:
        chk.count_case([s["cf"], s["id"]])
    for v in viols:
        for vv in v["v"]:
            sc = by_id.get(v["seg"], {})
            sig = {"clause": vv["clause"], "info": vv["info"], "cf": sc.get("cf"), "class": "schedule"}
            seg, on = [], False
            for e in ev:
                if e["ev"] == "cfg":
                    on = e["id"] == v["seg"]
                if on:
                    seg.append(e)
            chk.violation(sig, [{"script": sc, "line": v["line"]}] + seg, name="%s-%s.ndjson" % (vv["clause"], v["seg"]))


def system_level(chk, sd, g):
    """the limiter model's walks through the whole balancer (lbsim, rate limiter enabled): every model Allow is a
    client request; the client is identified by the connection's address or by X-Forwarded-For; verdict = 429 or not,
    and a limited request must not reach a backend.  One model tick = one lbsim tick (2 s), refill = 2R s."""
    import json
    import pool_common as pc
    binp = pc.build_lbsim(sd)
    ws, stats = vlib.walks(g, max_len=120)
    scripts = []
    # xffmapped / xffnat64: client addresses written as IPv6 with an embedded dotted quad (IPv4-mapped, NAT64)
    for variant in ("peer", "xff", "xffmapped", "xffnat64"):
        for j, w in enumerate(ws):
            cf = w["cf"]
            steps, rid = [], 0
            for a in w["acts"]:
                if a["a"] == "allow":
                    rid += 1
                    st = {"a": "req", "id": rid, "plan": "ok", "client": "10.0.0.%d" % a["c"]}
                    if variant == "xff":
                        st["client"] = "10.9.9.9"
                        st["hdr"] = {"X-Forwarded-For": "203.0.113.%d, 10.9.9.9" % a["c"]}
                    elif variant == "xffmapped":
                        st["client"] = "10.9.9.9"
                        st["hdr"] = {"X-Forwarded-For": "::ffff:192.0.2.%d" % a["c"]}
                    elif variant == "xffnat64":
                        st["client"] = "10.9.9.9"
                        st["hdr"] = {"X-Real-IP": "64:ff9b::198.51.100.%d" % a["c"]}
                    st["c"] = a["c"]
                    steps.append(st)
                else:
                    steps.append({"a": "tick", "n": 1})
            scripts.append({"id": "sys-%s-%d-%d" % (variant, w["init"], j), "lcf": cf,
                            "cfg": {"strategy": "round_robin", "backends": [{"name": "b1", "w": 1}, {"name": "b2", "w": 1}],
                                    "passive": {"on": False, "thr": 1, "win": 1}, "active": {"on": False, "iv": 1},
                                    "rl": {"on": True, "max": cf["max"], "refill": 2 * cf["r"]}},
                            "steps": steps})
    tp = pc.replay(binp, scripts, sd, "limsys")
    by_id = {s["id"]: s for s in scripts}
    out, cur, disp = [], None, set()
    for e in vlib.read_ndjson(tp):
        if e["ev"] == "cfg":
            cur = by_id[e["id"]]
            cmap = {st["id"]: st["c"] for st in cur["steps"] if st["a"] == "req"}
            disp = set()
            out.append({"ev": "cfg", "id": e["id"], "cf": cur["lcf"]})
        elif e["ev"] == "tick":
            out.append({"ev": "tick", "n": e["n"]})
        elif e["ev"] == "dispatch":
            disp.add(e["id"])
        elif e["ev"] == "reply":
            res = e["kind"] != "rate_limited"
            out.append({"ev": "allow", "c": cmap[e["id"]], "res": res, "solo": res, "fwd": e["id"] in disp, "status": e["status"]})
    mp = os.path.join(sd, "limsys.mapped.ndjson")
    vlib.write_ndjson(mp, out)
    chk.cov["traces_validated_against_impl"] += len(scripts)
    chk.cov["replayed_transitions_system_level"] = stats["transitions"] * 4
    viols, pr = vlib.observe("ObsLimiterTrace", "ObsLimiterTrace.cfg", mp)
    chk.add_tlc("P:LimiterObs over balancer-level replay", pr)
    for v in viols:
        for vv in v["v"]:
            sc = by_id.get(v["seg"], {})
            sig = {"clause": vv["clause"], "info": vv["info"], "cf": sc.get("lcf"), "class": "system-" + v["seg"].split("-")[1]}
            chk.violation(sig, [{"script": sc}] + pc.segment(tp, v["seg"]), name="%s-%s.ndjson" % (vv["clause"], v["seg"]))


def run(tier):
    chk = vlib.Check("C09", tier)
    sd = vlib.scratch("c09")
    binp = vlib.go_build("limsim", "internal/zz_verif/limsim", ["limsim/main.go", "limsim/gate_on.go", "limsim/gate_off.go"], sd, faketime=True)
    thorough = tier == "thorough"
    cfgset = "CfgAll" if thorough else "CfgQuick"
    clients = [1, 2, 3] if thorough else [1, 2]
    # 1. M |= P for all bounded histories
    r = tlc_cfg(cfgtext([1, 2], cfgset, False), "mc.cfg", workers=vlib.NCPU, timeout=1500)
    chk.add_tlc("M|=P bounded histories (%s, 2 clients)" % cfgset, r)
    if r.rc != 0:
        chk.notes.append("MODEL-CEX: " + ",".join(r.invariant_violated))
        vlib.log("MODEL-CEX (not a verdict): limiter model violates " + ",".join(r.invariant_violated))
    # 2. every transition of M replayed on the real limiter
    scripts = []
    g2 = tlc_cfg(cfgtext(clients, "CfgIso" if not thorough else "CfgQuick", True), "gen2.cfg", workers=8, timeout=1500)
    ws, stats2 = vlib.walks(g2, max_len=120)
    for j, w in enumerate(ws):
        steps = [{"a": "allow", "c": a["c"]} if a["a"] == "allow" else {"a": "tick", "n": 1} for a in w["acts"]]
        scripts.append({"id": "iso-%d-%d" % (w["init"], j), "cf": w["cf"], "steps": steps})
    clients = [1]
    g = tlc_cfg(cfgtext(clients, cfgset, True), "gen.cfg", workers=8, timeout=1500)
    ws, stats = vlib.walks(g, max_len=120)
    stats["transitions"] += stats2["transitions"]
    for j, w in enumerate(ws):
        steps = [{"a": "allow", "c": a["c"]} if a["a"] == "allow" else {"a": "tick", "n": 1} for a in w["acts"]]
        scripts.append({"id": "lim-%d-%d" % (w["init"], j), "cf": w["cf"], "steps": steps})
    # 3. from every reachable model state: drain every client's bucket (max+2 requests at one
    #    instant) -- the remaining allowance of the real limiter in that state is what the bounds limit
    import graphs
    from collections import deque
    adj = graphs.build(g.printed("TR"))
    nprobe = 0
    for i, ini in enumerate(g.printed("IN")):
        par = {ini["s"]: None}
        dq = deque([ini["s"]])
        order = []
        while dq:
            x = dq.popleft()
            order.append(x)
            for (k, a, t) in adj.get(x, []):
                if t not in par:
                    par[t] = (x, a)
                    dq.append(t)
        for j, x in enumerate(order):
            p = []
            y = x
            while par[y] is not None:
                y, a = par[y]
                p.append(a)
            p.reverse()
            steps = [{"a": "allow", "c": a["c"]} if a["a"] == "allow" else {"a": "tick", "n": 1} for a in p]
            for c in clients:
                steps += [{"a": "allow", "c": c}] * (ini["cf"]["max"] + 2)
            scripts.append({"id": "drain-%d-%d" % (i, j), "cf": ini["cf"], "steps": steps})
            nprobe += 1
    chk.cov["reachable_states_drained"] = nprobe
    tp = vlib.run_chunked(binp, scripts, sd, "lim", chunk=300)
    chk.cov["traces_validated_against_impl"] += len(scripts)
    chk.cov["replayed_model_transitions"] = stats["transitions"]
    viols, pr = vlib.observe("ObsLimiterTrace", "ObsLimiterTrace.cfg", tp)
    chk.add_tlc("P:LimiterObs over replay", pr)
    # code -> M: the same trace validated against Limiter.tla itself (every verdict must be the model's)
    mr = vlib.tlc("TraceLimiter", "TraceLimiter.cfg", workers=1, timeout=1800, env={"TRACE_FILE": tp}, deadlock=False)
    if mr.rc != 0:
        raise vlib.FrameworkError("TraceLimiter did not consume the trace (rc=%d):\n%s" % (mr.rc, mr.out[-2000:]))
    chk.add_tlc("M-conformance:TraceLimiter over replay", mr)
    div = mr.printed("MDIV")
    chk.cov["m_conformance"] = {"trace_lines": mr.distinct - 1, "diverged_segments": len(div), "first": div[:3]}
    if div:
        vlib.log("MODEL-DRIFT (not a verdict): %d replayed segments take a step Limiter.tla cannot explain, first: %s" % (len(div), str(div[0])[:400]))
    by_id = {s["id"]: s for s in scripts}
    for s in scripts:
        chk.count_case([s["cf"], s["id"]])
    ev = vlib.read_ndjson(tp)
    for v in viols:
        for vv in v["v"]:
            sc = by_id.get(v["seg"], {})
            sig = {"clause": vv["clause"], "info": vv["info"], "cf": sc.get("cf")}
            seg = []
            on = False
            for e in ev:
                if e["ev"] == "cfg":
                    on = e["id"] == v["seg"]
                if on:
                    seg.append(e)
            chk.violation(sig, [{"script": sc, "line": v["line"]}] + seg, name="%s-%s.ndjson" % (vv["clause"], v["seg"]))
    if scripts:
        chk.sample({"script": scripts[0]["id"], "cf": scripts[0]["cf"], "steps": scripts[0]["steps"][:14], "events": ev[1:12]})
    system_level(chk, sd, g2)
    # unbounded complement (TLA+ proof system): the counting invariant for every number of callers / clients and every configuration
    vlib.tlapm(chk, "LimiterProofs")
    # the composed request path (spec/System.tla): limiter ; breaker ; selection ; proxy ; counting
    import system_common, pool_common as _pc
    system_common.run(chk, sd, _pc.build_lbsim(sd), {"C09"}, plans=system_common.QUICK[:1] if tier != "thorough" else system_common.THOROUGH[:5])
    cleanup_race(chk, sd, binp)
    import dist_common
    dist_common.run(chk, sd, tier, ["limconc"], {"C09"})
    chk.cov["exhaustive"] = True
    chk.cov["rule"] = "every transition of the TLA+ limiter model (bucket absent/tokens/age per client, cleanup) replayed on the real limiter; one case = one covering walk"
    chk.assumptions += ["one tick = 600 s virtual time; refill = R ticks; cleanup cutoff 1 h = 6 ticks, fired between driver ticks",
                        "isolation is judged against a private limiter per client run in lockstep"]
    return chk.finish()
