"""C05 distribution contracts of round_robin, weighted_round_robin, least_connections."""
import vlib, pool_common as pc

S3 = ["round_robin", "weighted_round_robin", "least_connections"]


def plans(tier):
    if tier == "quick":
        return [
            ("w321", pc.consts(S3, weight="W321", win=1, passive=False, mark=True, outcomes=("ok",))),
            ("w111-4", pc.consts(["round_robin"], N=4, N0=4, weight="W111", win=1, passive=False, mark=True, outcomes=("ok",))),
            ("lc-hold", pc.consts(["least_connections"], weight="W111", win=1, passive=False, mark=True, maxhold=2, outcomes=("ok", "hold"))),
            ("admin", pc.consts(["round_robin", "least_connections"], N=3, N0=2, weight="W321", win=1, passive=False, mark=False, admin=True, clients=(1,), outcomes=("ok",))),
        ]
    return [
        ("w321", pc.consts(S3, weight="W321", win=2, passive=True, thr=2, mark=True, outcomes=("ok", "fail"))),
        ("w2101-4", pc.consts(S3, N=4, N0=4, weight="W2101", win=1, passive=False, mark=True, outcomes=("ok",))),
        ("lc-hold", pc.consts(["least_connections"], N=3, N0=3, weight="W111", win=1, passive=False, mark=True, maxhold=2, outcomes=("ok", "hold"))),
        ("admin", pc.consts(["round_robin", "least_connections"], N=3, N0=2, weight="W111", win=1, passive=False, mark=True, admin=True, clients=(1,), outcomes=("ok",))),
        ("admin-wrr", pc.consts(["weighted_round_robin"], N=3, N0=2, weight="W111", win=1, passive=False, mark=False, admin=True, clients=(1,), outcomes=("ok",))),
        ("admin-w321", pc.consts(["round_robin", "least_connections"], N=3, N0=2, weight="W321", win=1, passive=False, mark=False, admin=True, clients=(1,), outcomes=("ok",))),
    ]


def sweeps(chk, sd, binp):
    import dist_common
    dist_common.run(chk, sd, chk.tier, ['wrr', 'rrcount'], {"C05"})


def run(tier):
    return pc.run_check("C05", tier, ("C05",), plans(tier), clauses={"NotReadmitted", "RemoveGone", "DispatchToUnknown"}, extra=sweeps, guards={"w321"})
