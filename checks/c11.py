"""C11 runtime reconfiguration is atomic and consistent under traffic (sequential part)."""
import vlib, pool_common as pc


def plans(tier):
    S = pc.STRATS
    if tier == "quick":
        P = []
        for st in S:
            P.append(("pool3-" + st, pc.consts([st], N=3, N0=3, weight="W111", win=1, passive=False, admin=True, clients=(1,), outcomes=("ok",))))
        P.append(("switch", pc.consts(S, N=2, N0=1, weight="W321", win=1, passive=False, mark=True, admin=True, badops=True, clients=(1,), outcomes=("ok",))))
        return P
    P = []
    for st in S:
        if st == "weighted_round_robin":
            P.append(("pool3-" + st, pc.consts([st], N=3, N0=3, weight="W111", win=1, passive=False, admin=True, badops=True, clients=(1,), outcomes=("ok",))))
        else:
            P.append(("pool4-" + st, pc.consts([st], N=4, N0=3, weight="W2101", win=1, passive=False, admin=True, badops=True, clients=(1, 2), outcomes=("ok",))))
    P.append(("switch", pc.consts(S, N=2, N0=1, weight="W321", win=1, passive=False, mark=True, admin=True, badops=True, clients=(1, 2), outcomes=("ok",))))
    P.append(("switch3", pc.consts(["round_robin", "ip_hash_consistent"], N=3, N0=2, weight="W111", win=1, passive=False, mark=True, admin=True, clients=(1,), outcomes=("ok",))))
    P.append(("switch-hold", pc.consts(S, N=2, N0=2, weight="W321", win=1, passive=False, mark=True, admin=True, maxhold=1, clients=(1,), outcomes=("ok", "hold"))))
    return P


def linearizability(chk, sd, binp_unused):
    """concurrent clause: admin actors + clients in real parallel on the real balancer; TLC searches for a
    linearization of every distinct history (spec/Lin.tla)"""
    import os, json, cases
    tier = chk.tier
    binp = vlib.go_build("linsim", "internal/zz_verif/linsim", ["linsim/main.go"], sd)
    cs, r = cases.enumerate_cases("GenLin", "GenLin.cfg", env={"TIER": tier})
    chk.add_tlc("concurrent admin/traffic cases (spec/Lin.tla)", r)
    reps = 30 if tier == "thorough" else 10
    tp = cases.execute_chunked(binp, cs, sd, "lin", chunk=4000, timeout=3000, extra_args=[str(reps)], par=2)
    st = json.load(open(tp + ".ok"))
    chk.cov["concurrent_histories_run"] = st["histories"]
    chk.cov["concurrent_histories_distinct"] = st["distinct"]
    chk.cov["traces_validated_against_impl"] += st["distinct"]
    for c in cs:
        chk.count_case(["lin", json.dumps(c, sort_keys=True)])

    def sig(clause, e):
        kinds = sorted({o["k"] + ":" + (o["name"] or o["s"]) for o in e["o"]["ops"] if o["k"] not in ("req", "list")})
        return {"clause": clause, "class": "concurrent", "strategy": e["c"]["strategy"], "ops": ",".join(kinds)}
    cases.judge(chk, "ObsLinTrace", "ObsLinTrace.cfg", tp, sig, "lin", timeout=3000, parts=12)
    with open(tp) as fh:
        chk.sample({"concurrent_history": json.loads(fh.readline())})


def run(tier):
    return pc.run_check("C11", tier, ("C11",), plans(tier), clauses={"RemoveGone", "DispatchToUnknown", "Spurious503", "DispatchInWindow", "ReportedHealthyInWindow", "ValidAddRefused"},
                        alias={"switch", "switch3"}, extra=linearizability)
