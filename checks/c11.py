"""C11 runtime reconfiguration is atomic and consistent under traffic (sequential part)."""
import vlib, pool_common as pc


def plans(tier):
    S = pc.STRATS
    if tier == "quick":
        P = []
        for st in S:
            P.append(("pool3-" + st, pc.consts([st], N=3, N0=3, weight="W111", win=1, passive=False, admin=True, clients=(1,), outcomes=("ok",))))
        P.append(("switch", pc.consts(S, N=2, N0=1, weight="W321", win=1, passive=False, mark=True, admin=True, badops=True, clients=(1,), outcomes=("ok",))))
        return P
    P = []
    for st in S:
        if st == "weighted_round_robin":
            P.append(("pool3-" + st, pc.consts([st], N=3, N0=3, weight="W111", win=1, passive=False, admin=True, badops=True, clients=(1,), outcomes=("ok",))))
        else:
            P.append(("pool4-" + st, pc.consts([st], N=4, N0=3, weight="W2101", win=1, passive=False, admin=True, badops=True, clients=(1, 2), outcomes=("ok",))))
    P.append(("switch", pc.consts(S, N=2, N0=1, weight="W321", win=1, passive=False, mark=True, admin=True, badops=True, clients=(1, 2), outcomes=("ok",))))
    P.append(("switch3", pc.consts(["round_robin", "ip_hash_consistent"], N=3, N0=2, weight="W111", win=1, passive=False, mark=True, admin=True, clients=(1,), outcomes=("ok",))))
    P.append(("switch-hold", pc.consts(S, N=2, N0=2, weight="W321", win=1, passive=False, mark=True, admin=True, maxhold=1, clients=(1,), outcomes=("ok", "hold"))))
    return P


def run(tier):
    return pc.run_check("C11", tier, ("C11",), plans(tier), clauses={"RemoveGone", "DispatchToUnknown", "Spurious503"},
                        alias={"switch", "switch3"})
