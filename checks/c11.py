"""C11 runtime reconfiguration is atomic and consistent under traffic (sequential part)."""
import vlib, pool_common as pc


def plans(tier):
    S = pc.STRATS
    if tier == "quick":
        return [("admin", pc.consts(["round_robin", "ip_hash"], N=3, N0=2, weight="W321", win=1, passive=False, mark=False, admin=True, clients=(1,), outcomes=("ok",))),
                ("admin-eject", pc.consts(["least_connections", "ip_hash_consistent"], N=2, N0=1, weight="W111", win=1, passive=False, mark=True, admin=True, clients=(1,), outcomes=("ok",)))]
    return [("admin4", pc.consts(S, N=4, N0=2, weight="W2101", win=1, passive=False, mark=True, admin=True, maxhold=1, outcomes=("ok", "hold")))]


def run(tier):
    return pc.run_check("C11", tier, ("C11",), plans(tier), clauses={"RemoveGone", "DispatchToUnknown", "Spurious503"})
