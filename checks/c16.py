"""C16 request-ID / trace-ID propagation is consistent end to end."""
import os, json
import vlib, cases, pool_common as pc

VALS = {"absent": None, "empty": "", "long": "L" * 1024, "punct": "a=b;c/d:e,f", "inner_space": "abc def",
        "two": "first-1\x01second-2"}


def script_for(i, c):
    reqh = "X-Correlation-ID" if c["hdr"] == "custom" else ""
    trh = "X-B3-TraceId" if c["hdr"] == "custom" else ""
    plugins = []
    if c["plugin"]:
        plugins.append({"name": "request-id"})
    if c["path"] == "toolarge413":
        plugins.append({"name": "size_limit", "config": {"max_request_body": 16, "max_response_body": 100000}})
    if c["path"] == "plugin401":
        plugins.append({"name": "custom-auth", "config": {"apiKey": "k1"}})
    cfg = {"strategy": "round_robin", "backends": [{"name": "b1", "w": 1}],
           "passive": {"on": False, "thr": 1, "win": 2}, "active": {"on": False, "iv": 1},
           "ids": {"req": c["reqOn"], "trace": c["traceOn"], "req_header": reqh, "trace_header": trh},
           "plugins": plugins}
    hdr = {}
    rname = reqh or "X-Request-ID"
    tname = trh or "X-Trace-ID"
    if VALS[c["rval"]] is not None:
        hdr[rname] = VALS[c["rval"]]
    if VALS[c["tval"]] is not None:
        hdr[tname] = VALS[c["tval"]]
    steps = []
    req = {"a": "req", "id": 9, "client": "10.0.0.1", "plan": "ok+ownid" if c["bown"] else "ok", "hdr": hdr}
    if c["path"] == "limited429":
        cfg["rl"] = {"on": True, "max": 1, "refill": 3600}
        steps.append({"a": "req", "id": 1, "client": "10.0.0.1", "plan": "ok"})
    elif c["path"] == "nobackend503":
        steps.append({"a": "mark", "b": "b1"})
    elif c["path"] == "toolarge413":
        req["body"] = 100
        req["method"] = "POST"
    elif c["path"] == "plugin401":
        hdr["X-API-Key"] = "wrong"
    if c["path"] != "plugin401" and False:
        pass
    steps.append(req)
    return {"id": "id-%d" % i, "cfg": cfg, "steps": steps}


def wire(chk, sd):
    """socket level: the relay exchanges of spec/Relay.tla (every status class incl. interim 1xx, every body
    framing, plugins on/off) through the real server; the final response must carry both IDs"""
    import c01
    binp = c01.build(sd)
    cs, r = cases.enumerate_cases("GenRelay", "GenRelay.cfg")
    cs = [c for c in cs if c[10] == "ids_on"]
    chk.add_tlc("relay exchanges with the ID middleware on (spec/Relay.tla)", r)
    tp = cases.execute([binp, "relay"], cs, sd, "idwire", timeout=1800, extra_args=[str(vlib.seed())])
    chk.cov["traces_validated_against_impl"] += len(cs)
    chk.cov["wire_exchanges"] = len(cs)

    def sig(clause, e):
        c = e["c"]
        return {"clause": clause, "path": "proxied-wire", "status": c[5], "respbody": c[7], "plugin": c[11], "method": c[0]}
    cases.judge(chk, "ObsIdWireTrace", "ObsIdWireTrace.cfg", tp, sig, "idwire")


def run(tier):
    chk = vlib.Check("C16", tier)
    sd = vlib.scratch("c16")
    binp = pc.build_lbsim(sd)
    cs, r = cases.enumerate_cases("GenIdHeaders", "GenIdHeaders.cfg")
    chk.add_tlc("case space from spec/IdHeaders.tla", r)
    scripts = [script_for(i, c) for i, c in enumerate(cs)]
    nb = 20000 if tier == "thorough" else 2000
    for k, (ro, to) in enumerate([(True, True), (True, False)]):
        scripts.append({"id": "burst-%d" % k, "cfg": {"strategy": "round_robin", "backends": [{"name": "b1", "w": 1}],
                        "passive": {"on": False, "thr": 1, "win": 2}, "active": {"on": False, "iv": 1},
                        "ids": {"req": ro, "trace": True}}, "steps": [{"a": "burst", "n": nb}]})
    tp = pc.replay(binp, scripts, sd, "ids")
    # join the events of the case request (id 9) into one observation record (no rewriting)
    recs = []
    cur = None
    obs = None
    for e in vlib.read_ndjson(tp):
        if e["ev"] == "cfg":
            if cur is not None and obs is not None:
                recs.append({"c": cur, "o": obs})
            i = e["id"]
            cur = cs[int(i.split("-")[1])] if i.startswith("id-") else None
            obs = {"rin": [], "rb": [], "rc": [], "tin": [], "tb": [], "tc": [], "dispatched": False} if cur else None
        elif e["ev"] == "burst":
            recs.append({"burst": {"n": e["n"], "rids": e["rids"], "tids": [] if not e["tids"] else e["tids"]}})
        elif cur is not None and e.get("id") == 9:
            if e["ev"] == "req":
                obs["rin"], obs["tin"] = e["rid_in"], e["tid_in"]
            elif e["ev"] == "dispatch":
                obs["rb"], obs["tb"], obs["dispatched"] = e["rid"], e["tid"], True
            elif e["ev"] == "reply":
                obs["rc"], obs["tc"] = e.get("rid", []), e.get("tid", [])
                obs["status"] = e["status"]
    if cur is not None and obs is not None:
        recs.append({"c": cur, "o": obs})
    # real parallelism (no virtual time): concurrent generations through the real middleware + balancer
    ibin = vlib.go_build("idsim", "internal/zz_verif/idsim", ["idsim/main.go"], sd,
                         extra_overlay={"internal/loadbalancer/zz_verif_export.go": "accessors/lb_verif_export.go"})
    npar = 100000 if tier == "thorough" else 30000
    for k in range(3 if tier == "thorough" else 2):
        bp = os.path.join(sd, "idburst%d.json" % k)
        vlib.run([ibin, str(npar), bp], timeout=600)
        b = json.load(open(bp))["burst"]
        recs.append({"burst": {"n": b["n"], "rids": b["rids"], "tids": b["tids"]}})
        if b["mismatch"]:
            recs.append({"burst": {"n": b["n"], "rids": ["backend-saw-different-id"] * 2, "tids": b["tids"][:2]}})
    jp = os.path.join(sd, "ids.joined.ndjson")
    vlib.write_ndjson(jp, recs)
    chk.cov["traces_validated_against_impl"] = len(recs)
    for c in cs:
        chk.count_case(c)

    def sig(clause, e):
        if "burst" in e:
            return {"clause": clause, "burst": e["burst"]["n"]}
        c = e["c"]
        return {"clause": clause, "path": c["path"], "plugin": c["plugin"], "rval": c["rval"], "hdr": c["hdr"],
                "reqOn": c["reqOn"], "traceOn": c["traceOn"], "bown": c["bown"]}
    cases.judge(chk, "ObsIdTrace", "ObsIdTrace.cfg", jp, sig, "ids")
    wire(chk, sd)
    chk.sample(recs[0])
    chk.sample({"c": recs[len(recs) // 2].get("c")})
    chk.cov["exhaustive"] = True
    chk.cov["concurrent_generations"] = nb * 2 + npar * 2
    chk.cov["rule"] = "every case of spec/IdHeaders.tla run through the real middleware + chain + balancer (lbsim); bursts of concurrent generations for uniqueness"
    chk.assumptions += ["client values are wire-realistic (no surrounding blanks: net/http trims them before any handler runs)",
                        "the case request's events are joined by request id into one record (pure join)"]
    return chk.finish()
