"""C16 request-ID / trace-ID propagation is consistent end to end."""
import os, json
import vlib, cases, pool_common as pc

VALS = {"absent": None, "empty": "", "long": "L" * 1024, "punct": "a=b;c/d:e,f", "inner_space": "abc def",
        "two": "first-1\x01second-2", "uspace_edge": "abc\u00a0"}


def script_for(i, c):
    reqh = "X-Correlation-ID" if c["hdr"] == "custom" else ""
    trh = "X-B3-TraceId" if c["hdr"] == "custom" else ""
    plugins = []
    if c["plugin"]:
        plugins.append({"name": "request-id"})
    if c["path"] == "toolarge413":
        plugins.append({"name": "size_limit", "config": {"max_request_body": 16, "max_response_body": 100000}})
    if c["path"] == "plugin401":
        plugins.append({"name": "custom-auth", "config": {"apiKey": "k1"}})
    cfg = {"strategy": "round_robin", "backends": [{"name": "b1", "w": 1}],
           "passive": {"on": False, "thr": 1, "win": 2}, "active": {"on": False, "iv": 1},
           "ids": {"req": c["reqOn"], "trace": c["traceOn"], "req_header": reqh, "trace_header": trh},
           "plugins": plugins}
    hdr = {}
    rname = reqh or "X-Request-ID"
    tname = trh or "X-Trace-ID"
    if VALS[c["rval"]] is not None:
        hdr[rname] = VALS[c["rval"]]
    if VALS[c["tval"]] is not None:
        hdr[tname] = VALS[c["tval"]]
    steps = []
    req = {"a": "req", "id": 9, "client": "10.0.0.1", "plan": "ok+ownid" if c["bown"] else "ok", "hdr": hdr}
    if c["path"] == "limited429":
        cfg["rl"] = {"on": True, "max": 1, "refill": 3600}
        steps.append({"a": "req", "id": 1, "client": "10.0.0.1", "plan": "ok"})
    elif c["path"] == "nobackend503":
        steps.append({"a": "mark", "b": "b1"})
    elif c["path"] == "toolarge413":
        req["body"] = 100
        req["method"] = "POST"
    elif c["path"] == "plugin401":
        hdr["X-API-Key"] = "wrong"
    if c["path"] != "plugin401" and False:
        pass
    steps.append(req)
    return {"id": "id-%d" % i, "cfg": cfg, "steps": steps}


def process_level(sd):
    """the real cmd/helios binary (its own handler composition: middleware, plugin chain, balancer, servers): one
    request per case, a recording backend; returns observation records in the vocabulary of spec/IdHeaders.tla"""
    import subprocess, socket, threading, time, http.server
    env = dict(vlib.GOENV, GOCACHE=os.environ.get("GOCACHE", "/var/tmp/helios-verif-gocache"))
    binp = os.path.join(sd, "helios")
    p = subprocess.run(["go", "build", "-o", binp, "./cmd/helios"], cwd=vlib.REPO, env=env, stdout=subprocess.PIPE, stderr=subprocess.STDOUT, text=True)
    if p.returncode != 0:
        raise vlib.FrameworkError("cannot build cmd/helios: " + p.stdout[-1500:])
    seen = {}

    class B(http.server.BaseHTTPRequestHandler):
        def log_message(self, *a):
            pass

        def _do(self):
            n = int(self.headers.get("Content-Length") or 0)
            if n:
                self.rfile.read(n)
            seen[self.headers.get("X-Case", "?")] = {k.lower(): self.headers.get_all(k) for k in set(self.headers.keys())}
            self.send_response(200); self.send_header("Content-Length", "2"); self.end_headers(); self.wfile.write(b"ok")
        do_GET = do_POST = _do
    http.server.ThreadingHTTPServer.handle_error = lambda *a, **k: None
    srv = http.server.ThreadingHTTPServer(("127.0.0.1", 0), B)
    threading.Thread(target=srv.serve_forever, daemon=True).start()

    def free():
        s = socket.socket(); s.bind(("127.0.0.1", 0)); q = s.getsockname()[1]; s.close(); return q
    out = []
    k = 0
    for hdr in ("default", "custom"):
        for rval in ("absent", "punct", "uspace_edge"):
            for path in ("proxied", "plugin401", "toolarge413", "limited429"):
                if rval == "uspace_edge" and path != "proxied":
                    continue
                k += 1
                c = {"reqOn": True, "traceOn": True, "hdr": hdr, "rval": rval, "tval": "absent", "path": path, "plugin": False, "bown": False}
                rname = "X-Correlation-ID" if hdr == "custom" else "X-Request-ID"
                tname = "X-B3-TraceId" if hdr == "custom" else "X-Trace-ID"
                port = free()
                y = "server:\n  port: %d\nbackends:\n  - name: \"b1\"\n    address: \"http://127.0.0.1:%d\"\nload_balancer:\n  strategy: \"round_robin\"\n" % (port, srv.server_address[1])
                if path == "limited429":
                    y += "rate_limit:\n  enabled: true\n  max_tokens: 1\n  refill_rate_seconds: 3600\n"
                y += "logging:\n  level: \"error\"\n  format: \"json\"\n  request_id:\n    enabled: true\n    header: \"%s\"\n  trace:\n    enabled: true\n    header: \"%s\"\n" % (rname, tname)
                if path == "plugin401":
                    y += "plugins:\n  enabled: true\n  chain:\n    - name: custom-auth\n      config:\n        apiKey: \"k1\"\n"
                if path == "toolarge413":
                    y += "plugins:\n  enabled: true\n  chain:\n    - name: size_limit\n      config:\n        max_request_body: 16\n        max_response_body: 100000\n"
                cp = os.path.join(sd, "idproc.yaml")
                open(cp, "w").write(y)
                proc = subprocess.Popen([binp, "-config", cp], stdout=subprocess.DEVNULL, stderr=subprocess.DEVNULL)
                try:
                    for _ in range(100):
                        try:
                            socket.create_connection(("127.0.0.1", port), timeout=0.2).close(); break
                        except OSError:
                            time.sleep(0.05)
                    import http.client

                    def ask(body=None, extra=None):
                        hc = http.client.HTTPConnection("127.0.0.1", port, timeout=5)
                        h = {"X-Case": "p%d" % k}
                        h.update(extra or {})
                        hc.request("POST" if body else "GET", "/x", body=body, headers=h)
                        r = hc.getresponse(); r.read()
                        res = (r.status, {n.lower(): r.headers.get_all(n) for n in set(r.headers.keys())})
                        hc.close()
                        return res
                    sent = {}
                    if rval == "punct":
                        sent[rname] = VALS["punct"]
                    if rval == "uspace_edge":
                        # the UTF-8 bytes on the wire; http.client / http.server show header bytes as latin-1 text
                        sent[rname] = VALS["uspace_edge"].encode("utf-8").decode("latin-1")
                    if path == "limited429":
                        ask()
                        seen.pop("p%d" % k, None)
                    if path == "plugin401":
                        sent["X-API-Key"] = "wrong"
                    status, rh = ask(body=b"x" * 100 if path == "toolarge413" else None, extra=sent)
                    bh = seen.get("p%d" % k)
                    o = {"rin": [sent[rname]] if rname in sent else [], "tin": [],
                         "rb": (bh or {}).get(rname.lower(), []) or [], "tb": (bh or {}).get(tname.lower(), []) or [],
                         "rc": rh.get(rname.lower(), []) or [], "tc": rh.get(tname.lower(), []) or [],
                         "dispatched": bh is not None, "status": status, "process": True}
                    out.append({"c": c, "o": o})
                finally:
                    proc.kill(); proc.wait()
    srv.shutdown()
    return out


def wire(chk, sd):
    """socket level: the relay exchanges of spec/Relay.tla (every status class incl. interim 1xx, every body
    framing, plugins on/off) through the real server; the final response must carry both IDs"""
    import c01
    binp = c01.build(sd)
    cs, r = cases.enumerate_cases("GenRelay", "GenRelay.cfg")
    cs = [c for c in cs if c[10] == "ids_on"]
    chk.add_tlc("relay exchanges with the ID middleware on (spec/Relay.tla)", r)
    # through the real binary when it has been built (process_level does that): its own handler composition
    hb = os.path.join(sd, "helios")
    tp = cases.execute([binp, "relay"], cs, sd, "idwire", timeout=1800, extra_args=[str(vlib.seed())],
                       env={"PROXYSIM_BIN": hb} if os.path.exists(hb) else None)
    chk.cov["traces_validated_against_impl"] += len(cs)
    chk.cov["wire_exchanges"] = len(cs)

    def sig(clause, e):
        c = e["c"]
        return {"clause": clause, "path": "proxied-wire", "status": c[5], "respbody": c[7], "plugin": c[11], "method": c[0]}
    cases.judge(chk, "ObsIdWireTrace", "ObsIdWireTrace.cfg", tp, sig, "idwire")


def run(tier):
    chk = vlib.Check("C16", tier)
    sd = vlib.scratch("c16")
    binp = pc.build_lbsim(sd)
    cs, r = cases.enumerate_cases("GenIdHeaders", "GenIdHeaders.cfg")
    chk.add_tlc("case space from spec/IdHeaders.tla", r)
    scripts = [script_for(i, c) for i, c in enumerate(cs)]
    nb = 20000 if tier == "thorough" else 2000
    for k, (ro, to) in enumerate([(True, True), (True, False)]):
        scripts.append({"id": "burst-%d" % k, "cfg": {"strategy": "round_robin", "backends": [{"name": "b1", "w": 1}],
                        "passive": {"on": False, "thr": 1, "win": 2}, "active": {"on": False, "iv": 1},
                        "ids": {"req": ro, "trace": True}}, "steps": [{"a": "burst", "n": nb}]})
    tp = pc.replay(binp, scripts, sd, "ids")
    # join the events of the case request (id 9) into one observation record (no rewriting)
    recs = []
    cur = None
    obs = None
    for e in vlib.read_ndjson(tp):
        if e["ev"] == "cfg":
            if cur is not None and obs is not None:
                recs.append({"c": cur, "o": obs})
            i = e["id"]
            cur = cs[int(i.split("-")[1])] if i.startswith("id-") else None
            obs = {"rin": [], "rb": [], "rc": [], "tin": [], "tb": [], "tc": [], "dispatched": False} if cur else None
        elif e["ev"] == "burst":
            recs.append({"burst": {"n": e["n"], "rids": e["rids"], "tids": [] if not e["tids"] else e["tids"]}})
        elif cur is not None and e.get("id") == 9:
            if e["ev"] == "req":
                obs["rin"], obs["tin"] = e["rid_in"], e["tid_in"]
            elif e["ev"] == "dispatch":
                obs["rb"], obs["tb"], obs["dispatched"] = e["rid"], e["tid"], True
            elif e["ev"] == "reply":
                obs["rc"], obs["tc"] = e.get("rid", []), e.get("tid", [])
                obs["status"] = e["status"]
    if cur is not None and obs is not None:
        recs.append({"c": cur, "o": obs})
    # real parallelism (no virtual time): concurrent generations through the real middleware + balancer
    ibin = vlib.go_build("idsim", "internal/zz_verif/idsim", ["idsim/main.go"], sd,
                         extra_overlay={"internal/loadbalancer/zz_verif_export.go": "accessors/lb_verif_export.go"})
    npar = 100000 if tier == "thorough" else 30000
    for k in range(3 if tier == "thorough" else 2):
        bp = os.path.join(sd, "idburst%d.json" % k)
        vlib.run([ibin, str(npar), bp], timeout=600)
        b = json.load(open(bp))["burst"]
        recs.append({"burst": {"n": b["n"], "rids": b["rids"], "tids": b["tids"]}})
        if b["mismatch"]:
            recs.append({"burst": {"n": b["n"], "rids": ["backend-saw-different-id"] * 2, "tids": b["tids"][:2]}})
    prec = process_level(sd)
    chk.cov["process_level_cases"] = len(prec)
    recs += prec
    jp = os.path.join(sd, "ids.joined.ndjson")
    vlib.write_ndjson(jp, recs)
    chk.cov["traces_validated_against_impl"] = len(recs)
    for c in cs:
        chk.count_case(c)

    def sig(clause, e):
        if "burst" in e:
            return {"clause": clause, "burst": e["burst"]["n"]}
        c = e["c"]
        return {"clause": clause, "path": c["path"], "plugin": c["plugin"], "rval": c["rval"], "hdr": c["hdr"],
                "reqOn": c["reqOn"], "traceOn": c["traceOn"], "bown": c["bown"]}
    cases.judge(chk, "ObsIdTrace", "ObsIdTrace.cfg", jp, sig, "ids")
    wire(chk, sd)
    chk.sample(recs[0])
    chk.sample({"c": recs[len(recs) // 2].get("c")})
    chk.cov["exhaustive"] = True
    chk.cov["concurrent_generations"] = nb * 2 + npar * 2
    chk.cov["rule"] = "every case of spec/IdHeaders.tla run through the real middleware + chain + balancer (lbsim); bursts of concurrent generations for uniqueness"
    chk.assumptions += ["client values are wire-realistic (no surrounding blanks: net/http trims them before any handler runs)",
                        "the case request's events are joined by request id into one record (pure join)"]
    return chk.finish()
