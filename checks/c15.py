"""C15 gzip plugin: what the client decodes is exactly what the backend sent."""
import vlib, cases


def run(tier):
    chk = vlib.Check("C15", tier)
    sd = vlib.scratch("c15")
    binp = vlib.go_build("wiresim", "internal/zz_verif/wiresim", ["wiresim/main.go"], sd)
    cs, r = cases.enumerate_cases("GenGzip", "GenGzipThorough.cfg" if tier == "thorough" else "GenGzipQuick.cfg")
    chk.add_tlc("gzip cases from spec/Gzip.tla", r)
    tp = cases.execute(binp, cs, sd, "gzip", timeout=3000, extra_args=[str(vlib.seed())])
    chk.cov["traces_validated_against_impl"] = len(cs)
    for c in cs:
        chk.count_case(c)

    def sig(clause, e):
        c = e["c"]
        return {"clause": clause, "ae": c["ae"], "ct": c["ct"], "size": c["size"], "pre": c["pre"], "explicit": c["explicit"],
                "setcl": c["setcl"], "flush": c["flush"], "pos": c["pos"], "level": c["level"], "observed": e["o"]}
    cases.judge(chk, "ObsGzipTrace", "ObsGzipTrace.cfg", tp, sig, "gzip")
    chk.sample({"case": cs[len(cs) // 3]})
    chk.cov["exhaustive"] = tier == "thorough"
    chk.cov["rule"] = "Accept-Encoding spelling x content type x size around min_size x payload kind x explicit/implicit WriteHeader x status x pre-encoded x Content-Length x level x chain position, over a real TCP connection without transparent decompression"
    chk.assumptions += ["bodies are compared by SHA-256 prefix digests", "the 10 MB buffering cap is exercised only by the dedicated cap cases (thorough)"]
    return chk.finish()
