"""The composed request path (spec/System.tla): limiter ; breaker ; selection ; proxy ; passive counting ; metrics.

  M exhaustive   MCSystem with the composed invariants / action properties (TLC, small constants)
  M -> code      every transition of MCSystem replayed on a LoadBalancer built by NewLoadBalancer with the guards on
                 (harness/lbsim, virtual time), the whole abstract state logged after every step
  code -> M      spec/TraceSystem.tla: every logged step must be System's action and leave System's state
                 (divergence = MODEL-DRIFT, never a verdict)
  code -> P      spec/SystemObs.tla over the logged before / after states of every request (verdicts)
"""
import json, os
import vlib, pool_common as pc

BASE = dict(N=2, N0=2, strategy="round_robin", weight="W111", win=1, thr=2, clients=(1,), passive=True, active=False,
            admin=False, mark=False, outcomes=("ok", "fail"), rl=(True, 2, 1), cb=(True, 2, 2, 2, 1, 1))


def plan(**kw):
    c = dict(BASE)
    c.update(kw)
    return c


QUICK = [("rr", plan()), ("rr-abort", plan(outcomes=("ok", "fail", "abort"))), ("lc", plan(strategy="least_connections"))]
THOROUGH = QUICK + [("wrr3", plan(strategy="weighted_round_robin", N=3, N0=3, weight="W321")),
                    ("rr-active", plan(active=True, passive=False)),
                    ("lc-2clients-mark", plan(strategy="least_connections", clients=(1, 2), mark=True)),
                    ("rr-mark", plan(mark=True)),
                    ("rr-st1-ft1", plan(cb=(True, 1, 1, 1, 1, 2), rl=(True, 3, 2))),
                    ("rr-ft3", plan(cb=(True, 3, 1, 1, 1, 1), rl=(False, 1, 1)))]


def consts(c):
    b = lambda x: "TRUE" if x else "FALSE"
    rl, cb = c["rl"], c["cb"]
    return """CONSTANTS
  N = %d
  N0 = %d
  Strategies = {"%s"}
  Weight <- %s
  Win = %d
  Thr = %d
  MaxHold = 0
  Clients = {%s}
  HashOf <- Hash2
  PassiveOn = %s
  ActiveOn = %s
  AdminOn = %s
  MarkOn = %s
  BadOpsOn = FALSE
  Outcomes = {%s}
  RlOn = %s
  RlMax = %d
  RlR = %d
  CbOn = %s
  FT = %d
  ST = %d
  MR = %d
  IV = %d
  TO = %d
""" % (c["N"], c["N0"], c["strategy"], c["weight"], c["win"], c["thr"], ", ".join(str(x) for x in c["clients"]),
       b(c["passive"]), b(c["active"]), b(c["admin"]), b(c["mark"]), ", ".join('"%s"' % o for o in c["outcomes"]),
       b(rl[0]), rl[1], rl[2], b(cb[0]), cb[1], cb[2], cb[3], cb[4], cb[5])


KEEP = {"cfg": ("ev", "id", "cfg"), "req": ("ev", "client", "plan"), "dispatch": ("ev", "b"), "reply": ("ev", "kind"),
        "tick": ("ev", "n"), "mark": ("ev", "b"), "setprobe": ("ev", "b", "r"), "admin": ("ev", "op", "name", "status", "s"),
        "sys": ("ev", "bk", "cbm", "flags", "mb", "met", "order", "pf")}


def project(src, dst):
    """Drop what neither TraceSystem nor SystemObs reads (pure projection)."""
    n = 0
    with open(src) as fi, open(dst, "w") as fo:
        for line in fi:
            e = json.loads(line)
            k = KEEP.get(e["ev"])
            e = {x: e[x] for x in k if x in e} if k else {"ev": e["ev"]}
            if e["ev"] == "cfg":
                c = e["cfg"]
                e["cfg"] = {x: c.get(x) for x in ("strategy", "backends", "passive", "active", "rl", "cb")}
                e["cfg"]["sys"] = bool(c.get("sys"))
            fo.write(json.dumps(e, separators=(",", ":")) + "\n")
            n += 1
    return n


def run(chk, sd, binp, props, plans=None, max_req=None):
    tier = chk.tier
    plans = plans or (THOROUGH if tier == "thorough" else QUICK)
    max_req = max_req or (6 if tier == "thorough" else 4)
    m = chk.cov.setdefault("system_model", {"plans": [], "transitions_replayed": 0, "trace_lines": 0, "diverged_segments": 0,
                                            "first": []})
    for name, c in plans:
        k = consts(c)
        # M alone, exhaustive within MaxReq requests
        r = pc.tlc_cfg("MCSystem", k + "  MaxReq = %d\nINIT MCInit\nNEXT MCNext\nVIEW svars\nCONSTRAINT Bound\n"
                       "INVARIANTS SysTypeOK Partition BackendSum TrialBudget MirrorCb\n"
                       "PROPERTIES OpenBlocks LimitedIsInert RejectedIsInert No503WhileHealthy\n" % max_req,
                       "m.cfg", workers=vlib.NCPU, timeout=1800)
        chk.add_tlc("System M exhaustive [%s]" % name, r)
        if r.rc != 0:
            chk.notes.append("MODEL-CEX in System plan %s" % name)
            vlib.log("MODEL-CEX (not a verdict) in System plan " + name)
        # every transition replayed on the real balancer
        g = pc.tlc_cfg("MCSystem", k + "  MaxReq = 0\nINIT MCInit\nNEXT MCNext\nVIEW SView\nINVARIANTS EmitInit\nACTION_CONSTRAINT Emit\n",
                       "gen.cfg", workers=8, timeout=1800)
        scripts, ntr = pc.scripts_from(g, "sys-" + name)
        tp = pc.replay(binp, scripts, sd, "sys-" + name)
        proj = os.path.join(sd, "sys-%s.proj.ndjson" % name)
        nlines = project(tp, proj)
        chk.cov["traces_validated_against_impl"] += len(scripts)
        for s in scripts:
            chk.count_case(["system", name, s["id"]])
        # code -> M
        wd = vlib.scratch("tlc")
        with open(os.path.join(wd, "trace.cfg"), "w") as fh:
            fh.write(k + "INIT TraceInit\nNEXT TraceNext\nINVARIANT Report\nPOSTCONDITION Consumed\nCHECK_DEADLOCK FALSE\n")
        t = vlib.tlc("TraceSystem", "trace.cfg", workdir=wd, workers=1, timeout=3000, env={"TRACE_FILE": proj}, deadlock=False)
        if t.rc != 0:
            raise vlib.FrameworkError("TraceSystem did not consume the trace of %s (rc=%d):\n%s" % (name, t.rc, t.out[-2500:]))
        chk.add_tlc("M-conformance:TraceSystem over sys-" + name, t)
        div = t.printed("MDIV")
        m["plans"].append(name)
        m["transitions_replayed"] += ntr
        m["trace_lines"] += nlines
        m["diverged_segments"] += len(div)
        if len(m["first"]) < 2:
            m["first"] += [json.loads(json.dumps(d)[:3000]) if len(json.dumps(d)) < 3000 else {"line": d.get("line"), "seg": d.get("seg")} for d in div[:2 - len(m["first"])]]
        if div:
            vlib.log("MODEL-DRIFT (not a verdict): %d replayed segments of System plan %s take a step System.tla cannot explain, first: %s"
                     % (len(div), name, json.dumps(div[0])[:700]))
        # code -> P
        viols, o = vlib.observe("ObsSystemTrace", "ObsSystemTrace.cfg", proj, timeout=3000)
        chk.add_tlc("P:SystemObs over sys-" + name, o)
        by_id = {s["id"]: s for s in scripts}
        for v in viols:
            for vv in v["v"]:
                if vv["prop"] not in props:
                    continue
                sc = by_id.get(v["seg"], {})
                sig = {"clause": vv["clause"], "class": "system-model", "plan": name}
                chk.violation(sig, [{"script": sc, "line": v["line"]}] + pc.segment(tp, v["seg"]),
                              name="%s-%s.ndjson" % (vv["clause"], v["seg"]))
        vlib.log("  system plan %s: %d transitions, %d walks, %d trace lines, M check %.1fs, conformance %.1fs (%d diverged), P %.1fs"
                 % (name, ntr, len(scripts), nlines, r.wall, t.wall, len(div), o.wall))
    return m
