"""Case-enumeration pattern: TLC enumerates the abstract case space of a TLA+
policy spec ("CASE {json}" lines), a Go harness executes every case on the
real code and records the observation next to the case, TLC judges every
line with the spec's Check operator."""
import os, json
import vlib


def enumerate_cases(module, cfg, timeout=900, env=None):
    r = vlib.tlc(module, cfg, workers=8, timeout=timeout, env=env)
    if r.rc != 0:
        raise vlib.FrameworkError("case enumeration failed: %s/%s\n%s" % (module, cfg, r.out[-1500:]))
    return r.printed("CASE"), r


def execute(binp, cases, sd, name, timeout=900, extra_args=(), env=None):
    cp = os.path.join(sd, name + ".cases.ndjson")
    tp = os.path.join(sd, name + ".trace.ndjson")
    vlib.write_ndjson(cp, cases)
    e = dict(os.environ, **env) if env else None
    if isinstance(binp, (list, tuple)):
        vlib.run(list(binp) + [cp, tp] + list(extra_args), timeout=timeout, env=e)
    else:
        vlib.run([binp, cp, tp] + list(extra_args), timeout=timeout, env=e)
    if not os.path.exists(tp + ".ok"):
        raise vlib.FrameworkError("harness did not finish: " + name)
    return tp


def execute_chunked(binp, cases, sd, name, chunk, timeout=900, extra_args=(), par=2):
    """execute() in several processes of `chunk` cases each (harnesses whose objects under test leak goroutines keep
    their memory bounded that way); traces are concatenated, the numeric fields of the .ok files summed."""
    from concurrent.futures import ThreadPoolExecutor
    parts = [cases[i:i + chunk] for i in range(0, len(cases), chunk)] or [[]]

    def one(k):
        return execute(binp, parts[k], sd, "%s.%d" % (name, k), timeout=timeout, extra_args=extra_args)
    with ThreadPoolExecutor(max_workers=par) as ex:
        tps = list(ex.map(one, range(len(parts))))
    tp = os.path.join(sd, name + ".trace.ndjson")
    tot = {}
    with open(tp, "w") as fo:
        for t in tps:
            with open(t) as fi:
                for line in fi:
                    fo.write(line)
            try:
                st = json.load(open(t + ".ok"))
                for k, v in st.items():
                    if isinstance(v, (int, float)):
                        tot[k] = tot.get(k, 0) + v
            except Exception:
                pass
            os.remove(t)
    with open(tp + ".ok", "w") as fh:
        json.dump(tot, fh)
    return tp


def judge(chk, module, cfg, tp, sig_of, name, timeout=900, env=None, parts=1):
    if parts > 1:
        viols, r = vlib.observe_parallel(module, cfg, tp, parts=parts, timeout=timeout, env=env)
    else:
        viols, r = vlib.observe(module, cfg, tp, timeout=timeout, env=env)
    chk.add_tlc("P:%s over %s" % (module, name), r)
    if not viols:
        return 0
    lines = None
    n = 0
    for v in viols:
        if lines is None:
            with open(tp) as fh:
                lines = fh.readlines()
        e = json.loads(lines[v["line"] - 1])
        for clause in v["v"]:
            sig = sig_of(clause, e)
            if vlib.match_known(chk.pid, sig):
                chk.violation(sig, [])
            else:
                chk.violation(sig, [e], name="%s-%s-%d.ndjson" % (clause if isinstance(clause, str) else clause.get("clause"), name, v["line"]))
            n += 1
    return n
