"""Case-enumeration pattern: TLC enumerates the abstract case space of a TLA+
policy spec ("CASE {json}" lines), a Go harness executes every case on the
real code and records the observation next to the case, TLC judges every
line with the spec's Check operator."""
import os, json
import vlib


def enumerate_cases(module, cfg, timeout=900, env=None):
    r = vlib.tlc(module, cfg, workers=8, timeout=timeout, env=env)
    if r.rc != 0:
        raise vlib.FrameworkError("case enumeration failed: %s/%s\n%s" % (module, cfg, r.out[-1500:]))
    return r.printed("CASE"), r


def execute(binp, cases, sd, name, timeout=900, extra_args=()):
    cp = os.path.join(sd, name + ".cases.ndjson")
    tp = os.path.join(sd, name + ".trace.ndjson")
    vlib.write_ndjson(cp, cases)
    if isinstance(binp, (list, tuple)):
        vlib.run(list(binp) + [cp, tp] + list(extra_args), timeout=timeout)
    else:
        vlib.run([binp, cp, tp] + list(extra_args), timeout=timeout)
    if not os.path.exists(tp + ".ok"):
        raise vlib.FrameworkError("harness did not finish: " + name)
    return tp


def judge(chk, module, cfg, tp, sig_of, name, timeout=900, env=None, parts=1):
    if parts > 1:
        viols, r = vlib.observe_parallel(module, cfg, tp, parts=parts, timeout=timeout, env=env)
    else:
        viols, r = vlib.observe(module, cfg, tp, timeout=timeout, env=env)
    chk.add_tlc("P:%s over %s" % (module, name), r)
    if not viols:
        return 0
    lines = None
    n = 0
    for v in viols:
        if lines is None:
            with open(tp) as fh:
                lines = fh.readlines()
        e = json.loads(lines[v["line"] - 1])
        for clause in v["v"]:
            sig = sig_of(clause, e)
            if vlib.match_known(chk.pid, sig):
                chk.violation(sig, [])
            else:
                chk.violation(sig, [e], name="%s-%s-%d.ndjson" % (clause if isinstance(clause, str) else clause.get("clause"), name, v["line"]))
            n += 1
    return n
