"""State-graph utilities: turn TLC's emitted transitions into replay scripts."""
from collections import defaultdict, deque
import json


def build(trs):
    """trs: list of dict(from,to,act). Returns adjacency {from: [(actkey, act, to)]} deduped."""
    adj = defaultdict(list)
    seen = set()
    for t in trs:
        k = (t["from"], json.dumps(t["act"], sort_keys=True), t["to"])
        if k in seen:
            continue
        seen.add(k)
        adj[t["from"]].append((k[1], t["act"], t["to"]))
    return adj


def covering_walks(init, adj, max_len=400):
    """Walks from `init` that together traverse every transition reachable from
    it at least once.  Greedy: follow untraversed edges; when none leaves the
    current state, go to the nearest state that still has one (multi-source BFS
    on the reverse graph, recomputed only when its answer is stale); start a
    new walk (path from init along the BFS tree) when the walk is long enough
    or nothing is reachable."""
    ids = {init: 0}
    order = [init]
    dq = deque([init])
    while dq:
        s = dq.popleft()
        for (k, a, t) in adj.get(s, []):
            if t not in ids:
                ids[t] = len(order)
                order.append(t)
                dq.append(t)
    n = len(order)
    out = [[] for _ in range(n)]       # (act, to)
    rev = [[] for _ in range(n)]       # (from, edge index in out[from])
    for s in order:
        i = ids[s]
        for (k, a, t) in adj.get(s, []):
            j = ids[t]
            rev[j].append((i, len(out[i])))
            out[i].append((a, j))
    unt = [len(o) for o in out]        # untraversed edges per state; consumed from the end
    remaining = sum(unt)
    par = [None] * n
    depth = [0] * n
    seenb = [False] * n
    seenb[0] = True
    dq = deque([0])
    while dq:
        i = dq.popleft()
        for (a, j) in out[i]:
            if not seenb[j]:
                seenb[j] = True
                par[j] = (i, a)
                depth[j] = depth[i] + 1
                dq.append(j)

    def path_from_init(j):
        p = []
        while par[j] is not None:
            i, a = par[j]
            p.append(a)
            j = i
        p.reverse()
        return p

    stamp = [0] * n
    bpar = [None] * n
    epoch = [0]

    def nearest(src, budget):
        """forward BFS with early exit: path (list of acts) to the nearest state that still has
        untraversed edges, or None if none is found within `budget` visited states"""
        epoch[0] += 1
        ep = epoch[0]
        stamp[src] = ep
        bpar[src] = None
        q = deque([src])
        seen = 0
        while q:
            x = q.popleft()
            seen += 1
            if seen > budget:
                return None, None
            for (a, j) in out[x]:
                if stamp[j] != ep:
                    stamp[j] = ep
                    bpar[j] = (x, a)
                    if unt[j] > 0:
                        p = []
                        y = j
                        while bpar[y] is not None:
                            py, pa = bpar[y]
                            p.append(pa)
                            y = py
                        p.reverse()
                        return p, j
                    q.append(j)
        return None, None

    walks = []
    walk = []
    cur = 0
    pending = sorted(range(n), key=lambda x: -depth[x])
    while remaining > 0:
        if unt[cur] > 0 and len(walk) < max_len:
            unt[cur] -= 1
            a, j = out[cur][unt[cur]]
            remaining -= 1
            walk.append(a)
            cur = j
            continue
        moved = False
        if len(walk) < max_len:
            p, x = nearest(cur, 4000)
            if p is not None:
                walk.extend(p)
                cur = x
                moved = True
        if moved:
            continue
        if walk:
            walks.append(walk)
        while pending and unt[pending[-1]] == 0:
            pending.pop()
        if not pending:
            break
        tgt = pending[-1]
        walk = path_from_init(tgt)
        cur = tgt
    if walk:
        walks.append(walk)
    return walks
