"""State-graph utilities: turn TLC's emitted transitions into replay scripts."""
from collections import defaultdict, deque


def build(trs):
    """trs: list of dict(from,to,act). Returns adjacency {from: [(actkey, act, to)]} deduped."""
    adj = defaultdict(list)
    seen = set()
    import json
    for t in trs:
        k = (t["from"], json.dumps(t["act"], sort_keys=True), t["to"])
        if k in seen:
            continue
        seen.add(k)
        adj[t["from"]].append((k[1], t["act"], t["to"]))
    return adj


def covering_walks(init, adj, max_len=400):
    """Walks from `init` that together traverse every transition reachable from
    it at least once.  Greedy: follow untraversed edges; when none leaves the
    current state, go (BFS) to the nearest state that has one; start a new
    walk when none is reachable or the walk is long enough."""
    untr = {}
    reach = set([init])
    dq = deque([init])
    while dq:
        s = dq.popleft()
        for (k, a, t) in adj.get(s, []):
            if t not in reach:
                reach.add(t)
                dq.append(t)
    for s in reach:
        untr[s] = list(adj.get(s, []))
    remaining = sum(len(v) for v in untr.values())
    # BFS tree from init for restarts
    parent = {init: None}
    depth = {init: 0}
    dq = deque([init])
    while dq:
        s = dq.popleft()
        for (k, a, t) in adj.get(s, []):
            if t not in parent:
                parent[t] = (s, a)
                depth[t] = depth[s] + 1
                dq.append(t)

    def path_from_init(s):
        p = []
        while parent[s] is not None:
            ps, a = parent[s]
            p.append(a)
            s = ps
        p.reverse()
        return p

    def nearest(s, budget=60):
        """bounded BFS from s to a state with an untraversed edge; returns list of acts and the state."""
        par = {s: None}
        dq = deque([s])
        while dq and budget > 0:
            budget -= 1
            x = dq.popleft()
            if untr[x]:
                p = []
                y = x
                while par[y] is not None:
                    py, a = par[y]
                    p.append(a)
                    y = py
                p.reverse()
                return p, x
            for (k, a, t) in adj.get(x, []):
                if t not in par:
                    par[t] = (x, a)
                    dq.append(t)
        return None, None

    pending = sorted(reach, key=lambda x: -depth[x])   # pop() yields the shallowest first
    walks = []
    cur = init
    walk = []
    while remaining > 0:
        if untr[cur] and len(walk) < max_len:
            k, a, t = untr[cur].pop()
            remaining -= 1
            walk.append(a)
            cur = t
            continue
        p, x = (None, None)
        if len(walk) < max_len:
            p, x = nearest(cur)
        if p is None:
            if walk:
                walks.append(walk)
            # restart: go to some state with untraversed edges via the BFS tree
            while pending and not untr[pending[-1]]:
                pending.pop()
            tgt = pending[-1] if pending else None
            if tgt is None:
                break
            walk = path_from_init(tgt)
            cur = tgt
            if not untr[cur]:
                break
            continue
        walk.extend(p)
        cur = x
    if walk:
        walks.append(walk)
    return walks
