"""Common machinery for the Helios TLA+ model-based checks.

Everything a check needs: scratch dirs outside /repo and /verif, Go builds of
the harness against /repo's *current working tree* through `go build -overlay`
(the harness lives in /verif/harness and is mapped to virtual paths inside the
module because Helios' packages are all internal/), TLC runs (always under a
timeout, -metadir in scratch), collection of observer verdicts, known-finding
matching, and the evidence writer.

Verdict rule (DESIGN.md 1.1): exit 1 / VIOLATION only when a trace recorded
from the real code is rejected by a property observer (P).  Anything that
prevents a verdict (build failure, TLC crash, timeout) is exit 2.
"""
import json, os, re, shutil, subprocess, sys, tempfile, time, hashlib, atexit

VERIF = os.path.dirname(os.path.dirname(os.path.abspath(__file__)))
REPO = os.environ.get("VERIF_REPO", "/repo")
MODULE = "github.com/0xReLogic/Helios"
SPEC = os.path.join(VERIF, "spec")
HARNESS = os.path.join(VERIF, "harness")
EVIDENCE = os.environ.get("VERIF_EVIDENCE", os.path.join(VERIF, "evidence"))
NCPU = os.cpu_count() or 4

GOENV = dict(os.environ, GOFLAGS="-mod=mod", GOPROXY="off", GOSUMDB="off",
             GOTOOLCHAIN="local", GONOSUMDB="*", GONOSUMCHECK="1")


class FrameworkError(Exception):
    """Something prevented a verdict: exit 2, never a violation."""


_scratch_dirs = []


def scratch(prefix="hv"):
    base = os.environ.get("VERIF_SCRATCH_BASE", "/var/tmp")
    os.makedirs(base, exist_ok=True)
    d = tempfile.mkdtemp(prefix="helios-verif-%s-" % prefix, dir=base)
    _scratch_dirs.append(d)
    return d


def _cleanup():
    for d in _scratch_dirs:
        shutil.rmtree(d, ignore_errors=True)


atexit.register(_cleanup)


def seed():
    try:
        return int(os.environ.get("VERIF_SEED", "1"))
    except ValueError:
        return 1


def log(*a):
    print(*a, flush=True)


# --------------------------------------------------------------------------
# Go builds
# --------------------------------------------------------------------------

def go_build(name, virt_pkg, files, out_dir, tags=("verif",), faketime=False,
             race=False, extra_overlay=None, test_binary=False):
    """Build harness `files` (list of paths under /verif/harness) as package
    main at the virtual directory REPO/<virt_pkg>.  extra_overlay maps virtual
    file paths (relative to REPO) to real files, e.g. accessor files placed
    inside an existing package."""
    overlay = {}
    for f in files:
        real = f if os.path.isabs(f) else os.path.join(HARNESS, f)
        overlay[os.path.join(REPO, virt_pkg, os.path.basename(real))] = real
    for v, real in (extra_overlay or {}).items():
        real = real if os.path.isabs(real) else os.path.join(HARNESS, real)
        overlay[os.path.join(REPO, v)] = real
    ov = os.path.join(out_dir, name + ".overlay.json")
    with open(ov, "w") as fh:
        json.dump({"Replace": overlay}, fh)
    out = os.path.join(out_dir, name)
    env = dict(GOENV)
    tg = list(tags)
    if faketime:
        tg.append("faketime")
        env["CGO_ENABLED"] = "0"
    if race:
        env["CGO_ENABLED"] = "1"
    env["GOCACHE"] = os.environ.get("GOCACHE", "/var/tmp/helios-verif-gocache")
    if test_binary:
        cmd = ["go", "test", "-c", "-vet=off", "-overlay", ov, "-tags", ",".join(tg), "-o", out]
    else:
        cmd = ["go", "build", "-overlay", ov, "-tags", ",".join(tg), "-o", out]
    if race:
        cmd.append("-race")
    cmd.append("./" + virt_pkg)
    t0 = time.time()
    p = subprocess.run(cmd, cwd=REPO, env=env, stdout=subprocess.PIPE, stderr=subprocess.STDOUT, text=True)
    if p.returncode != 0:
        raise FrameworkError("go build of %s failed:\n%s" % (name, p.stdout[-4000:]))
    log("  built %s in %.1fs" % (name, time.time() - t0))
    return out


def run(cmd, timeout, cwd=None, env=None, ok_codes=(0,), input=None):
    try:
        p = subprocess.run(cmd, cwd=cwd, env=env, stdout=subprocess.PIPE, stderr=subprocess.STDOUT,
                           timeout=timeout, input=input)
        p.stdout = p.stdout.decode("utf-8", errors="replace")   # faketime binaries frame their output
    except subprocess.TimeoutExpired as e:
        raise FrameworkError("timeout after %ss: %s" % (timeout, " ".join(cmd)[:200]))
    if p.returncode not in ok_codes:
        raise FrameworkError("command failed (%d): %s\n%s" % (p.returncode, " ".join(cmd)[:300], p.stdout[-4000:]))
    return p


# --------------------------------------------------------------------------
# TLC
# --------------------------------------------------------------------------

class TlcResult:
    def __init__(self, out, rc):
        self.out = out
        self.rc = rc
        self.generated = 0
        self.distinct = 0
        m = None
        for m in re.finditer(r"(\d+) states generated, (\d+) distinct states found", out):
            pass
        if m:
            self.generated = int(m.group(1))
            self.distinct = int(m.group(2))
        self.invariant_violated = re.findall(r"Invariant (\S+) is violated", out)
        self.temporal_violated = "Temporal properties were violated" in out
        self.deadlock = "Deadlock reached" in out
        self.ok = rc == 0

    def printed(self, prefix):
        """Lines printed by PrintT("<prefix> " \\o ToJson(..)) -> list of parsed JSON.
        TLC prints the string as a quoted literal with escaped quotes."""
        res = []
        q = '"' + prefix + ' '
        for line in self.out.splitlines():
            if not line.startswith(q):
                continue
            try:
                sv = json.loads(line)
                res.append(json.loads(sv[len(prefix) + 1:]))
            except ValueError:
                raise FrameworkError("cannot parse TLC line: " + line[:300])
        return res

    def coverage_zero(self):
        """With -coverage: names of actions never taken."""
        zeros = []
        for m in re.finditer(r"<(\w+) line \d+, col \d+ to line \d+, col \d+ of module (\w+)>: (\d+):(\d+)", self.out):
            if int(m.group(4)) == 0 and int(m.group(3)) == 0:
                zeros.append(m.group(1))
        return zeros


def tlc(module, cfg, workdir=None, workers=None, timeout=600, env=None, extra=(),
        simulate=None, depth=None, deadlock=True, heap=None, ok_rcs=(0,), coverage=False,
        depth_first=False):
    """Run TLC on /verif/spec/<module>.tla with config <cfg> (file name in
    /verif/spec or absolute) inside a scratch copy of the spec dir."""
    wd = workdir or scratch("tlc")
    for f in os.listdir(SPEC):
        if f.endswith(".tla") or f.endswith(".cfg"):
            shutil.copy(os.path.join(SPEC, f), wd)
    meta = tempfile.mkdtemp(prefix="meta", dir=wd)
    e = dict(os.environ)
    if env:
        e.update({k: str(v) for k, v in env.items()})
    jopts = "-Xss64m"
    if depth_first:
        jopts += " -Dtlc2.tool.queue.IStateQueue=StateDeque"
    e["JAVA_TOOL_OPTIONS"] = (e.get("JAVA_TOOL_OPTIONS", "") + " " + jopts).strip()
    cmd = ["tlc", "-metadir", meta, "-workers", str(workers or "auto"), "-config", cfg]
    if not deadlock:
        cmd.append("-deadlock")
    if simulate:
        cmd += ["-simulate", simulate]
    if depth:
        cmd += ["-depth", str(depth)]
    if coverage:
        cmd += ["-coverage", "1"]
    cmd += list(extra)
    cmd.append(module + ".tla")
    t0 = time.time()
    try:
        p = subprocess.run(cmd, cwd=wd, env=e, stdout=subprocess.PIPE, stderr=subprocess.STDOUT,
                           text=True, timeout=timeout)
    except subprocess.TimeoutExpired:
        subprocess.run(["pkill", "-f", meta], check=False)
        raise FrameworkError("TLC timeout (%ss) on %s/%s" % (timeout, module, cfg))
    r = TlcResult(p.stdout, p.returncode)
    r.wall = time.time() - t0
    if p.returncode not in ok_rcs and p.returncode not in (10, 11, 12, 13):
        # 10..13: assumption/deadlock/safety/liveness violation -> caller decides
        raise FrameworkError("TLC failed rc=%d on %s/%s:\n%s" % (p.returncode, module, cfg, p.stdout[-3000:]))
    shutil.rmtree(meta, ignore_errors=True)
    return r


_walker_bin = None


def tlapm(chk, module, timeout=600):
    """Check the proofs of /verif/spec/<module>.tla with the TLA+ proof system (unbounded complement to the TLC runs;
    about the model only: a failed obligation is reported as MODEL-CEX, never as a verdict)."""
    wd = scratch("tlaps")
    for f in os.listdir(SPEC):
        if f.endswith(".tla"):
            shutil.copy(os.path.join(SPEC, f), wd)
    t0 = time.time()
    try:
        p = subprocess.run(["tlapm", "--threads", "4", "--cleanfp", module + ".tla"], cwd=wd, stdout=subprocess.PIPE,
                           stderr=subprocess.STDOUT, text=True, timeout=timeout)
    except subprocess.TimeoutExpired:
        raise FrameworkError("tlapm timeout on " + module)
    m = re.search(r"All (\d+) obligations? proved", p.stdout)
    rec = {"module": module, "proved": bool(m), "obligations": int(m.group(1)) if m else 0, "wall_s": round(time.time() - t0, 1)}
    chk.cov.setdefault("tlaps", []).append(rec)
    if not m:
        chk.notes.append("MODEL-CEX: tlapm could not prove every obligation of " + module)
        log("MODEL-CEX (not a verdict): tlapm on %s: %s" % (module, p.stdout.strip().splitlines()[-8:]))
    else:
        log("  tlapm %s: all %d obligations proved (%.1fs)" % (module, rec["obligations"], rec["wall_s"]))
    shutil.rmtree(wd, ignore_errors=True)
    return rec


def walks(r, max_len=300):
    """Covering walks over the transitions TLC emitted in result r (tools/walker, Go).
    Returns (list of dict(init, cf, acts), stats)."""
    global _walker_bin
    sd = scratch("walk")
    if _walker_bin is None:
        _walker_bin = os.path.join(scratch("walkerbin"), "walker")
        env = dict(GOENV, GOCACHE=os.environ.get("GOCACHE", "/var/tmp/helios-verif-gocache"))
        p = subprocess.run(["go", "build", "-o", _walker_bin, "."], cwd=os.path.join(VERIF, "tools", "walker"),
                           env=env, stdout=subprocess.PIPE, stderr=subprocess.STDOUT, text=True)
        if p.returncode != 0:
            raise FrameworkError("cannot build tools/walker:\n" + p.stdout[-2000:])
    inp = os.path.join(sd, "tlc.out")
    outp = os.path.join(sd, "walks.ndjson")
    with open(inp, "w") as fh:
        fh.write(r.out)
    p = run([_walker_bin, inp, outp, str(max_len)], timeout=3600)
    stats = json.loads(p.stdout.strip().splitlines()[-1])
    if stats["covered"] != stats["transitions"]:
        raise FrameworkError("covering walks traverse %d of %d transitions" % (stats["covered"], stats["transitions"]))
    res = read_ndjson(outp)
    shutil.rmtree(sd, ignore_errors=True)
    return res, stats


def run_chunked(binp, scripts, sd, name, chunk=400, par=8, timeout=1800, extra=()):
    """Run a script-replay harness over `scripts` in several processes (objects under test leak their
    background tickers, which slows virtual time down when thousands accumulate in one process).
    Returns the path of the concatenated trace (script order preserved)."""
    from concurrent.futures import ThreadPoolExecutor
    parts = [scripts[i:i + chunk] for i in range(0, len(scripts), chunk)] or [[]]

    def one(k):
        sp = os.path.join(sd, "%s.%d.scripts.ndjson" % (name, k))
        tp = os.path.join(sd, "%s.%d.trace.ndjson" % (name, k))
        write_ndjson(sp, parts[k])
        run([binp, sp, tp] + list(extra), timeout=timeout)
        if not os.path.exists(tp + ".ok"):
            raise FrameworkError("harness did not finish (%s part %d)" % (name, k))
        return tp
    with ThreadPoolExecutor(max_workers=par) as ex:
        tps = list(ex.map(one, range(len(parts))))
    out = os.path.join(sd, name + ".trace.ndjson")
    with open(out, "w") as fo:
        for tp in tps:
            with open(tp) as fi:
                shutil.copyfileobj(fi, fo)
            os.remove(tp)
    return out


def write_ndjson(path, events):
    with open(path, "w") as fh:
        for e in events:
            fh.write(json.dumps(e, separators=(",", ":")) + "\n")


def read_ndjson(path):
    res = []
    with open(path) as fh:
        for line in fh:
            line = line.strip()
            if line:
                res.append(json.loads(line))
    return res


def observe(module, cfg, trace_path, timeout=900, env=None, prefix="VIOL"):
    """Run a property observer (P) over an ndjson trace recorded from the real
    code.  Returns (violations, events_consumed, TlcResult).  The observer
    must consume the whole trace (POSTCONDITION in its cfg); otherwise this is
    a framework error, not a verdict."""
    e = {"TRACE_FILE": trace_path}
    if env:
        e.update(env)
    r = tlc(module, cfg, workers=1, timeout=timeout, env=e, deadlock=False)
    if r.rc != 0:
        raise FrameworkError("observer %s did not accept the trace format (rc=%d):\n%s" % (module, r.rc, r.out[-3000:]))
    return r.printed(prefix), r


def observe_parallel(module, cfg, trace_path, parts=8, timeout=900, env=None, prefix="VIOL"):
    """observe() for traces whose lines are judged independently of each other (one case / history per line):
    the file is cut into `parts` pieces judged by as many TLC processes at once; reported line numbers are
    mapped back to the whole file.  Returns (violations, merged TlcResult-like of the slowest run)."""
    import threading
    with open(trace_path) as fh:
        lines = fh.readlines()
    n = len(lines)
    parts = max(1, min(parts, n // 200 or 1))
    if parts == 1:
        return observe(module, cfg, trace_path, timeout=timeout, env=env, prefix=prefix)
    size = (n + parts - 1) // parts
    res = [None] * parts
    err = []

    def work(k):
        try:
            pp = "%s.part%d" % (trace_path, k)
            with open(pp, "w") as fh:
                fh.writelines(lines[k * size:(k + 1) * size])
            res[k] = observe(module, cfg, pp, timeout=timeout, env=env, prefix=prefix)
        except Exception as ex:      # noqa
            err.append(ex)
    ths = [threading.Thread(target=work, args=(k,)) for k in range(parts)]
    for t in ths:
        t.start()
    for t in ths:
        t.join()
    if err:
        raise err[0]
    viols = []
    best = None
    gen = dist = 0
    for k, (v, r) in enumerate(res):
        for x in v:
            x = dict(x)
            x["line"] = x["line"] + k * size
            viols.append(x)
        gen += r.generated
        dist += r.distinct
        if best is None or r.wall > best.wall:
            best = r
    best.generated, best.distinct = gen, dist
    return viols, best


# --------------------------------------------------------------------------
# Known findings
# --------------------------------------------------------------------------

def load_known():
    p = os.path.join(VERIF, "known_findings.json")
    if not os.path.exists(p):
        return {"findings": [], "fixed": []}
    with open(p) as fh:
        return json.load(fh)


def match_known(pid, sig):
    """A finding matches when its property is pid and its `match` dict is a
    subset of the violation's signature dict."""
    for f in load_known().get("findings", []):
        if f.get("property") != pid:
            continue
        m = f.get("match", {})
        if all(sig.get(k) == v for k, v in m.items()):
            return f
    return None


# --------------------------------------------------------------------------
# Result / evidence
# --------------------------------------------------------------------------

class Check:
    def __init__(self, pid, tier, level="model_checking"):
        self.pid = pid
        self.tier = tier
        self.level = level
        self.t0 = time.time()
        self.cov = {"states": 0, "transitions": 0, "traces_validated_against_impl": 0,
                    "samples": [], "evaluations": 0, "distinct_nontrivial": 0, "rule": "",
                    "exhaustive": False, "tlc_runs": [], "drift": 0, "known_finding_hits": 0}
        self.assumptions = []
        self.violations = []   # (sig dict, replay path)
        self.known = {}        # finding id -> count
        self.notes = []
        self._distinct = set()
        self.keep_dir = os.path.join(EVIDENCE, "replay", pid)
        shutil.rmtree(self.keep_dir, ignore_errors=True)     # replay artefacts of earlier runs

    def add_tlc(self, name, r, exhaustive=None):
        self.cov["states"] += r.distinct
        self.cov["transitions"] += r.generated
        self.cov["tlc_runs"].append({"name": name, "distinct_states": r.distinct,
                                     "states_generated": r.generated, "wall_s": round(r.wall, 2)})

    def sample(self, s, limit=8):
        if len(self.cov["samples"]) < limit:
            self.cov["samples"].append(s)

    def count_case(self, key, nontrivial=True):
        self.cov["evaluations"] += 1
        if nontrivial:
            h = hashlib.sha1(json.dumps(key, sort_keys=True).encode()).digest()[:10]
            self._distinct.add(h)

    def save_replay(self, name, content_path_or_events):
        os.makedirs(self.keep_dir, exist_ok=True)
        dst = os.path.join(self.keep_dir, name)
        if isinstance(content_path_or_events, str):
            shutil.copy(content_path_or_events, dst)
        else:
            write_ndjson(dst, content_path_or_events)
        return dst

    def violation(self, sig, replay_events, name=None):
        """Record one observer rejection of a real trace; known findings are
        matched by signature, everything else is a VIOLATION."""
        kf = match_known(self.pid, sig)
        if kf:
            self.known.setdefault(kf["id"], {"f": kf, "n": 0, "example": sig})
            self.known[kf["id"]]["n"] += 1
            self.cov["known_finding_hits"] += 1
            return False
        nm = name or ("viol-%03d.ndjson" % len(self.violations))
        path = self.save_replay(nm, [{"signature": sig}] + list(replay_events))
        self.violations.append((sig, path))
        return True

    def finish(self):
        self.cov["distinct_nontrivial"] = len(self._distinct)
        wall = time.time() - self.t0
        ev = {"property_id": self.pid, "tier": self.tier, "seed": seed(), "level": self.level,
              "coverage": self.cov, "assumptions": self.assumptions, "wall_s": round(wall, 2),
              "violations": len(self.violations), "notes": self.notes}
        os.makedirs(EVIDENCE, exist_ok=True)
        with open(os.path.join(EVIDENCE, self.pid + ".json"), "w") as fh:
            json.dump(ev, fh, indent=1)
        for k in sorted(self.known):
            e = self.known[k]
            log("KNOWN-FINDING: property=%s %s (%d traces; e.g. %s)" % (
                self.pid, e["f"]["what"], e["n"], json.dumps(e["example"], sort_keys=True)[:200]))
        groups = {}
        for sig, path in self.violations:
            k = json.dumps({x: sig[x] for x in sig if x in ("clause", "class", "strategy", "active", "passive", "plugin", "kind")}, sort_keys=True)
            groups.setdefault(k, []).append((sig, path))
        for k in sorted(groups)[:40]:
            sig, path = groups[k][0]
            log("VIOLATION property=%s replay=%s  (%d traces) %s" % (self.pid, path, len(groups[k]), json.dumps(sig, sort_keys=True)[:400]))
        self.cov["violation_classes"] = {k: len(v) for k, v in groups.items()}
        log("%s %s: %s  (states=%d transitions=%d traces=%d cases=%d/%d known=%d drift=%d, %.1fs)" % (
            self.pid, self.tier, "VIOLATED" if self.violations else "held",
            self.cov["states"], self.cov["transitions"], self.cov["traces_validated_against_impl"],
            self.cov["distinct_nontrivial"], self.cov["evaluations"],
            self.cov["known_finding_hits"], self.cov["drift"], wall))
        return 1 if self.violations else 0


# observers that can judge the events stored in a replay artefact of each property
_OBSERVERS = {
    "C01": ["ObsRelayTrace"], "C02": ["ObsPoolTrace"], "C03": ["ObsFaultsTrace"],
    "C04": ["ObsPoolTrace", "ObsHealthRaceTrace"], "C05": ["ObsPoolTrace", "DistObs"], "C06": ["ObsPoolTrace", "DistObs"],
    "C07": ["ObsBreakerTrace"], "C08": ["ObsBreakerTrace", "DistObs"], "C09": ["ObsLimiterTrace", "DistObs"], "C10": ["ObsAdminTrace"],
    "C11": ["ObsPoolTrace", "ObsLinTrace"], "C12": ["RaceObs"], "C13": ["ObsPoolTrace", "ObsHealthRaceTrace", "DistObs"],
    "C14": ["ObsSizeLimitTrace"], "C15": ["ObsGzipTrace"], "C16": ["ObsIdTrace", "ObsIdWireTrace"], "C17": ["ObsChainTrace"],
    "C18": ["ObsConfigTrace"], "C19": ["ObsShutdownTrace"], "C20": ["ObsWsPoolTrace", "ObsTunnelTrace", "ObsLinPoolTrace"],
}


def replay_artifact(pid, path):
    """bin/check <ID> --replay <path>: the events stored with a violation (recorded from the real code when the check
    ran) are judged again by the property's TLA+ observer; prints the clauses it rejects.  Exit 1 if it still rejects
    them, 0 if not, 2 if no observer of the property accepts the file's format.  (To re-execute the script / case on
    the current tree run the check itself: the artefact's first lines hold the signature and the script or case.)"""
    lines = read_ndjson(path)
    sig = lines[0].get("signature") if lines and "signature" in lines[0] else None
    body = [e for e in lines if "signature" not in e and "script" not in e]
    if body and body[0].get("ev") == "cfg" and isinstance(body[0].get("cfg"), dict) and body[0]["cfg"].get("sys"):
        # a replay of spec/System.tla's walks: judged by SystemObs
        sys.path.insert(0, os.path.join(VERIF, "checks"))
        import system_common
        sd = scratch("replay")
        raw = os.path.join(sd, "raw.ndjson")
        write_ndjson(raw, body)
        tp = os.path.join(sd, "t.ndjson")
        system_common.project(raw, tp)
        viols, r = observe("ObsSystemTrace", "ObsSystemTrace.cfg", tp, timeout=600)
        viols = [v for v in viols if any(x["prop"] == pid for x in v["v"])]
        for v in viols:
            log("VIOLATION property=%s replay=%s  %s" % (pid, path, json.dumps(v, sort_keys=True)[:400]))
        log("ObsSystemTrace: %d rejected event(s)" % len(viols))
        return 1 if viols else 0
    if pid in ("C02", "C04", "C05", "C06", "C11", "C13") and body and body[0].get("ev") == "cfg" and "cfg" in body[0]:
        sys.path.insert(0, os.path.join(VERIF, "checks"))
        import pool_common
        sd = scratch("replay")
        raw = os.path.join(sd, "raw.ndjson")
        write_ndjson(raw, body)
        tp = os.path.join(sd, "t.ndjson")
        pool_common.project(raw, tp)
    else:
        sd = scratch("replay")
        tp = os.path.join(sd, "t.ndjson")
        write_ndjson(tp, body)
    log("replaying %s (%d recorded events)%s" % (path, len(body), "" if sig is None else " signature " + json.dumps(sig, sort_keys=True)[:300]))
    for mod in _OBSERVERS.get(pid, []):
        cfg = mod + ".cfg"
        try:
            viols, r = observe(mod, cfg, tp, timeout=600)
        except FrameworkError:
            continue
        for v in viols:
            log("VIOLATION property=%s replay=%s  %s" % (pid, path, json.dumps(v, sort_keys=True)[:400]))
        log("%s: %d rejected event(s)" % (mod, len(viols)))
        return 1 if viols else 0
    log("no observer of %s accepts the format of %s" % (pid, path))
    return 2


def main_wrapper(fn):
    try:
        rc = fn()
    except FrameworkError as e:
        log("FRAMEWORK-ERROR: " + str(e))
        rc = 2
    sys.exit(rc)
